#!/usr/bin/env python3
"""Regenerates /verif/MANIFEST.json from the table below (one entry per claimed property)."""
import json
import os

HERE = os.path.dirname(os.path.dirname(os.path.abspath(__file__)))
PY = '/venv/bin/python'

CHECKS = {
    'C01': dict(
        technique='explicit-state BFS over real SimulatedBroker histories vs exact Fraction ledger',
        text='Explicit-state BFS over every history of account/portfolio transfers (incl. sub-cent amounts and the quoted rounded balance), portfolio creation, order submission, clock updates and quote changes up to the stated depth, from four initial states (empty, funded, long, short with negative cash) under several fee models (zero, percentage, sub-half-cent commissions) and base currencies (USD, GBP, EUR), executed on the real broker with every intermediate state read back; after every transition master/portfolio cash, the balances of the other currencies, account totals, the event history (cents rule), history_to_df and global conservation are compared with an exact Fraction ledger. Plus every cycle of <= 2 events repeated 40-400 times (count-dependent behaviour). Plus ledgers of more than 10 000 (thorough: 25 000) entries with amounts that are not whole cents. Orders reusing a user-chosen id are part of the alphabet; accounts with 5-40 portfolios are checked. The cent-rounded (quoted) cash of a portfolio withdrawn back to the master is an event too. So is a fill handed to the portfolio directly which the position refuses (it carries a commission; nothing may move).',
        note='Trusted: the harness ledger (Fractions), the stub data handler, the recorder wrapped around Portfolio.transact_asset. Values outside the alphabet are not covered.',
        design='5/C01'),
    'C02': dict(
        technique='explicit-state BFS over real broker/portfolio histories vs exact holdings ledger',
        text='BFS over histories of submissions, clock updates (marks then fills), quote switches and portfolio-level price marks on two portfolios holding two assets (one with a mixed-case symbol); a complete tree of Portfolio.transact_asset / update_market_value_of_asset histories incl. lots of a million with residuals of a few shares; long periodic histories. After every transition holdings membership, quantity, market value at the last price seen, total market value and equity are compared with the ledger built from the fills as recorded. Plus wide books (6-11 open positions out of 12 assets): every close-one / open-another swap in both orders, read at every state and only at the end. One initial state has the portfolios created in the reverse of their id order.',
        note='Trusted: harness ledger, stub data handler (mid = (bid+ask)/2), transact_asset recorder. Close-to-zero, re-open and flip-through-zero are reachable within depth 2 by construction of the quantities (2,3,5).',
        design='5/C02'),
    'C04': dict(
        technique='explicit-state BFS over submit/clock-update interleavings with real SimulatedExchange',
        text='BFS over all interleavings of submissions (2 portfolios x 2 assets x buy/sell, also orders reusing a user-chosen id) with clock updates to every instant of a 10-instant horizon (both boundaries, one second either side, weekend) and quote switches (incl. a penny quote); per transition the pending queues and the exact set/order of fills. Plus: every day of a year (four years in thorough) x 13 boundary times through real fills, long periodic histories, and single batches of up to 800 orders. Plus cash bands: a buy submitted with cash just below / at / above the cost of the shares and of shares + fees under three charging fee models. Events include orders created earlier than they are submitted; accounts with 5-40 portfolios in one update.',
        note='Trusted: reference exchange hours computed from datetime fields; pending orders are read from SimulatedBroker.open_orders. Cross-portfolio same-side order is not compared.',
        design='5/C04'),
    'C05': dict(
        technique='exhaustive product enumeration of fills on the real broker vs documented fee rule',
        text='Full product of 50 fee configurations (incl. sub-basis-point rates) x 5 quote tables (crossed, sub-dollar, very large / penny) x assets x signed quantities x open instants, plus buy+sell batches, two live brokers used alternately, and update times given in other time zones: price side, commission = (c+t) x |round(price x qty)|, the amount actually debited from cash, non-negativity, symmetry and time stamp. Plus the account fee model replaced after portfolios exist (fills in old and new portfolios charged by the model configured when they happen). A quote table whose products lie within a quarter of a cent of a half unit is included.',
        note='Trusted: stub data handler with bid != ask; exact Fraction arithmetic for the expected commission; ties in consideration rounding accept both neighbours.',
        design='5/C05'),
    'C15': dict(
        technique='explicit-state BFS for the reachable states + exhaustive fault injection at every state',
        text='Reachable states of valid broker histories (3 initial states incl. a portfolio with two assets; events incl. direct portfolio credits and price marks stamped later than the broker clock) x every refusal kind: negative / tiny negative / excess / epsilon-excess amounts, unknown and duplicate ids, unsupported currency, earlier timestamps (also written in another time zone), refusals stamped later than the portfolio clock, negative price marks, fills the position refuses, broker updates below any clock: documented error type, no silent acceptance, full snapshot equality and a one-step differential. Other spellings of supported currency codes (usd, Gbp) must be refused or accepted consistently. Earlier instants of round kinds (midnight of the clock day, top of the hour) are part of the fault menu.',
        note='Trusted: snapshot covers exactly the observables the statement lists; private clocks are not compared. One fault per path (a refused fault is proved to change nothing, so sequences reduce to this case).',
        design='5/C15'),
    'C03': dict(
        technique='complete tree enumeration of fill/mark histories on real Position and Portfolio objects',
        text='Complete trees of fill/mark histories on the real Position object and through Portfolio.transact_asset (positions discarded at zero and re-opened): generic decimals depth 4, large magnitudes (1e6 lots, residual 5), negative commissions, fills the position refuses, and every cycle of <= 2 events repeated 60-2000 times; on every prefix the P&L identities are compared with an exact cash-flow ledger. All realisable running net-sign paths are shown covered. Also with non-integer lots (>= 1 unit) and with NumPy scalar arguments. A tree in which fills and marks share one timestamp is included.',
        note='Decides the identities on a generic decimal alphabet and every control path up to k fills, not for all reals; no random long sequences (sampling is another family).',
        design='5/C03'),
    'C10': dict(
        technique='exhaustive input-grid enumeration of the real long-only sizer vs exact budget inequalities',
        text='Full product equity x buffer x fee rate x weight vectors (1-3 assets; unnormalised, sparse, all-zero, near-unity sums, ints and floats) x price vectors (incl. sub-cent digits) on ONE sizer object per group - all weight vectors, then changed quotes at the same timestamp, an asset subset, withdrawn funds: q is a non-negative int with q*p+fee <= allocation < (q+1)*p+fee; refusal grids for negative weights, buffers outside [0,1], NaN prices, also through the QuantTradingSystem / BacktestTradingSession wiring. Plus re-assignment of the buffer on the live sizer and weight vectors of 8-40 assets. Plus an invested phase (the target traded through the broker, then sized again) and one weights dict edited in place. Every weight vector is also presented in a dict keyed in reverse symbol order.',
        note='Trusted: Fraction arithmetic of the reference; results within 1e-9 of a floor boundary accept both neighbours.',
        design='5/C10'),
    'C11': dict(
        technique='exhaustive input-grid enumeration of the real long/short sizer vs the exact affordability band of the statement',
        text='As C10 for the long/short sizer: int quantities with the sign of the weight, truncation toward zero, maximality to within one currency unit, gross exposure <= L*E*(1+f), on one sizer object per group with changing quotes / assets / equity; refusal grids for non-positive leverage (also through the system wiring) and NaN prices. Plus re-assignment of the leverage on the live sizer and weight vectors of 8-40 assets. Plus one weights dict edited in place between calls.',
        note='Trusted: Fraction arithmetic of the reference. No exact quantity is demanded beyond the statement: any whole number that is affordable and maximal to within one currency unit passes; points where that band holds two numbers are counted in boundary_ambiguous.',
        design='5/C11'),
    'C12': dict(
        technique='exhaustive calendar enumeration of the real simulation engine vs independent date arithmetic',
        text='Every start date of the window (quick: 447 consecutive days + a window across 1969/70; thorough: the 28-year cycle, Feb 1900/2100) x range lengths x start/end times x all four pre/post flags, plus ranges of 1-3 years from month starts of 2014-2021: the emitted stream is compared event by event with a datetime.date reference; engines are iterated again after a full and after an abandoned pass; end < start must raise. The calendars are enumerated again in child processes whose local time zone (TZ) is Tokyo / New York / London / Kiritimati, and on windows around and after the day of the run and in 2090. Ordered sequences of 3-4 clocks over overlapping and disjoint ranges are run in one process each. Start times include 09:15:30 and 00:00:00.25 (seconds and sub-seconds must not reach the events).',
        note='Trusted: datetime.date weekday arithmetic. End time of day never before the start time of day (quantifier).',
        design='5/C12'),
    'C13': dict(
        technique='exhaustive calendar enumeration of the real rebalance schedules vs independent date arithmetic + clock membership',
        text='The same calendar enumeration (incl. ranges of 1-3 years and starts with a sub-second part) for WeeklyRebalance x 5 weekdays, DailyRebalance, EndOfMonthRebalance (each x pre-market flag) and BuyAndHoldRebalance: exact date sets, stamps, strict order, and membership of every instant in the real clock stream for the same range; invalid weekdays refused. The same in child processes with a non-UTC local time zone and on windows around / after the day of the run. The clock is peeked at (abandoned iteration) before it is read.',
        note='Range membership at date granularity; start time of day <= 14:30.',
        design='5/C13'),
    'C06': dict(
        technique='exhaustive dataset x query enumeration on the real CSV data source vs list-based point-in-time lookup + truncation differential',
        text='Every CSV dataset over a 5-day window with weekend/leap-day gaps (row subsets x missing-cell patterns x row orders x adjusted/unadjusted) and files whose rows lie decades apart (1950-2099), loaded by the real CSVDailyBarDataSource; every query instant around every row (12 times of day incl. both boundaries, one second and fractions of a second either side) is compared with a reference lookup and the handler views (one and two sources), asked in ascending, descending and zig-zag order and in other time zones on fresh source objects, and - without any expected value - with the same query on the file truncated to rows dated <= t. Plus assets of one source whose files differ only in the days in between, asked alternately, and files of hundreds of rows. Plus EVERY sequence of three questions (asset, instant) over two assets x six days put to one freshly loaded source (quick 3 456 sequences; thorough 55 296): no answer may depend on what was asked before.',
        note='Trusted: the reference lookup (python lists). Lone-missing Close with Adj Close present is excluded (undefined).',
        design='5/C06'),
    'C17': dict(
        technique='exhaustive prefix-closed enumeration of equity curves vs list-based definitions + metamorphic scaling',
        text='Every curve grown from 100 by a step alphabet up to 6-7 observations on 4 calendars, curves with moves of 1e-6, and year-long periodic curves: real performance functions, JSONStatistics (file round trip, also as benchmark_curve) and TearsheetStatistics (also on a frame derived from one it already processed) vs list-based definitions; scalings x2 (bit-for-bit), x3.7, x1e7, x1e-5. Plus rendered tearsheets (plot_results under Agg): every number printed for the strategy and for a benchmark starting earlier / later / together equals the JSON export. Allocation tables with leading all-NaN rows; curves of 1 300 (2 610) observations.',
        note='Drawdown definition evaluated on the reported cumulative series (float-noise safe). Order of aggregate groups is not compared.',
        design='5/C17'),
    'C08': dict(
        technique='exhaustive configuration/schedule enumeration of complete real sessions vs independent reference simulator',
        text='Full Cartesian product of weight vectors (1-3 assets, long-only and signed, incl. weights needing six decimals), price-path shapes, 8 schedules, 7 start alignments, fees and cash levels (incl. one where targets toggle between 0 and 1 share and a 50 M account), 70-day and 13-month sessions, sessions with event printing on, an idle second portfolio, and an unrelated market traded earlier in the process: each complete BacktestTradingSession is compared fill by fill, cash, holdings and equity point by point with refmodel.Backtest (Fractions, written from the documented rules). Markets in which one symbol is held by two data sources, the first-listed starting inside the session, are included; same-instant fills are compared as a set with the sells-first rule. Markets with exchange holidays are included. Long-only sessions run with the 5 % buffer and with an explicit zero buffer.',
        note='Trusted: the reference simulator. Sessions where the rule hits an exact floor/rounding boundary are skipped and counted.',
        design='5/C08'),
    'C14': dict(
        technique='exhaustive start/end/burn-in/schedule enumeration of complete real sessions vs calendar reference + ledger replay',
        text='Full product of start (7 consecutive days x 00:00/14:30), length, burn-in (none, before start, every day x boundary times incl. 21:00 / 21:01) and 8 rebalance kinds, plus 70-day sessions and the no-burn-in sessions repeated after the burn-in ones: construction instants, fill instants, equity dates/values (ledger replay) and both user tables, which are also modified by the caller and asked for again. Plus sessions that straddle or lie after the day of the run, in 2090 and in 1975. The sessions are also run with a SignalsCollection handed to the session.',
        note='Trusted: datetime calendar reference. Tables only consulted with >= 1 rebalance and a non-empty curve (quantifier).',
        design='5/C14'),
    'C16': dict(
        technique='explicit-state BFS to fixpoint over price streams on the real signals + exhaustive session cadence enumeration',
        text="Part 1: for each signal class and lookback subset the search over append(asset, price) streams closes (state = true trailing window U actual deque contents) - assets known at creation, late assets, and an asset whose name extends another one's. Part 2: complete sessions with a real SignalsCollection (two lookbacks) over start alignments, lengths, every universe-entry variant of a second asset in both mapping orders, and a handler that was given a universe: every signal value (lookbacks 1, 2, 12, every member) is read through __call__ at every daily rebalance by a recording alpha model and compared with the definition over exactly the closes since entry. Cadence sessions also run with a burn-in well after the start. Sessions on a universe object that already served a session; 40 assets on one signal object. Two assets joining the universe at the same instant keep separate windows.",
        note='Trusted: list-based definitions. Buffer contents (AssetPriceBuffers.prices) only refine the canonical key of part 1 when present; no verdict depends on how observations are stored.',
        design='5/C16'),
    'C19': dict(
        technique='exhaustive grids (membership, optimisers) + exhaustive entry-time x schedule enumeration of complete real sessions',
        text='All entry maps over 3 assets (in UTC, New-York and Tokyo time) x every single, ascending and ordered pair of query instants on one universe object, universes of 10-64 assets, all weight dictionaries through both optimisers, the full product schedule x sizing x entry time of a late asset as complete sessions (also on pre-queried universe objects), and a static universe with signals and late data. NaN and None weights are part of the optimiser grid. Sessions on a universe object that already served a session with signals.',
        note='Order of the dynamic universe list not compared.',
        design='5/C19'),
    'C07': dict(
        technique='exhaustive (configuration x cut day x future rewrite) enumeration of pairs of complete real sessions, bit-for-bit prefix comparison',
        text='For every market (late-starting asset, missing cells, gaps with equal row counts, blank leading cells, zero-volume bars, a second data source) and every configuration of alpha {fixed, single-signal, momentum top-1, SMA trend, inverse vol via real signals} x universe x 5 rebalance kinds x sizing x fee x burn-in, the real session is run on the full data and on every rewritten world (every cut day incl. weekends x future rows removed / scaled / blanked / constant / reversed), each world in its own directory and on its own source objects; everything dated <= T must be bit-identical. A market with an exchange holiday on the business month end is part of the list. Pairs of sessions on one shared handler (the first starting later) are compared across worlds too. A market whose Adj Close / Close ratio changes from row to row and is not 1 on the last row is included.',
        note='Differential oracle, no expected values; comparison only between two runs of the same code in one interpreter. Quick thins the configuration product to one third (every value of every dimension kept); thorough is the full product.',
        design='5/C07'),
    'C09': dict(
        technique='explicit-state BFS over rebalance rounds on the real construction model, sizer and broker',
        text='BFS over rebalance rounds on the real PortfolioConstructionModel + sizer + broker: universe subset x alpha weight dictionary (subset / superset / disjoint, zero weights, an asset of no universe) x price table; orders = target - held for exactly universe U held U alpha keys, allocation row, holdings after the fills. Five initial holdings (incl. a one-share penny holding), numpy-string symbols, and 50 M accounts where the target moves by a few shares in millions. Plus a 40-asset universe with ten names weighted per round over three rotating rounds. Plus rounds whose orders are still queued when the next construction runs.',
        note='The sizer is trusted as a function (decided by C10/C11). Stub universe/alpha/data handler.',
        design='5/C09'),
    'C18': dict(
        technique='stateless choice-sequence (deviation-bounded) exploration of set-iteration order and order-id rank + hash-seed subprocesses + shared-source histories',
        text='(1) ChoiceSet injected as set/frozenset into all qstrader modules and uuid4 replaced by a rank-choosing seam: every execution with <= 2 deviations must give one digest; (2) fresh interpreters under hash seeds realising all 6 orders of the witness set; (3) process histories: ordered pairs of configurations on the same memoised source, another market first, the same directory rewritten, the same universe object twice, a burst of queries - each compared with the digest from a pristine process. Configurations include a late-data market and two data sources. Process histories also include 10^k - {0..3} orders created earlier in the process (k up to 6). Configurations over the same dates written from 00:00 and with the end as a plain day. A knife-edge configuration (weights 0.1/0.2/0.3 whose float sum depends on the order of addition, round prices, round account) is part of every run.',
        note='Set literals/comprehensions cannot be intercepted in-process (covered by the hash-seed runs only). Digest = fills without order ids, equity curve, target allocations with key order.',
        design='5/C18'),
}

NOT_YET = 'check not built yet (work in progress, see DESIGN.md section 5)'


def main():
    props = [json.loads(l) for l in open(os.path.join(HERE, 'properties.jsonl'))]
    checks = []
    na = []
    for p in props:
        pid = p['id']
        c = CHECKS.get(pid)
        if c is None or not os.path.exists(os.path.join(HERE, 'mc', 'props', pid.lower() + '.py')):
            na.append({'property_id': pid, 'reason': NOT_YET})
            continue
        checks.append({
            'property_id': pid,
            'quick_cmd': '%s -m mc.run %s --tier quick' % (PY, pid),
            'thorough_cmd': '%s -m mc.run %s --tier thorough' % (PY, pid),
            'evidence_file': '/verif/evidence/%s.json' % pid,
            'replay_cmd_template': '%s -m mc.run --replay {path}' % PY,
            'engine': 'mc',
            'level_claimed': {'category': 'model_checking', 'text': c['text'],
                              'design_ref': 'DESIGN.md section ' + c['design']},
            'level_note': c['note'],
            'technique': c['technique'],
        })
    man = {
        'version': 1,
        'setup_cmd': '%s -m mc.run --selftest' % PY,
        'hooks': {
            'guard': 'QSTRADER_VERIF',
            'enable': 'no source hooks exist: recorders are attached from the harness process only',
            'baseline_off_cmd': 'cd /repo && /venv/bin/python -m pytest -ra -q -p no:cacheprovider '
                                '--timeout=900 --continue-on-collection-errors',
            'source_commits': [],
            'add_only': True,
        },
        'engines': [{
            'name': 'mc', 'path': '/verif/mc',
            'serves_properties': [c['property_id'] for c in checks],
            'kind_free_text': 'hand-written explicit-state / product / choice-sequence explorer that executes '
                              'the real qstrader code on every transition (no separate model to conform)',
        }],
        'checks': checks,
        'not_applicable': na,
        'notes': 'All checks run /venv/bin/python against /repo (override with QSTRADER_REPO). '
                 'Known findings: /verif/known_findings.json. Replays: /verif/replays/.',
    }
    with open(os.path.join(HERE, 'MANIFEST.json'), 'w') as f:
        json.dump(man, f, indent=1)
    print('claimed', [c['property_id'] for c in checks], 'not claimed', [n['property_id'] for n in na])


if __name__ == '__main__':
    main()
