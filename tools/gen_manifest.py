#!/usr/bin/env python3
"""Regenerates /verif/MANIFEST.json from the table below (one entry per claimed property)."""
import json
import os

HERE = os.path.dirname(os.path.dirname(os.path.abspath(__file__)))
PY = '/venv/bin/python'

CHECKS = {
    'C01': dict(
        technique='explicit-state BFS over real SimulatedBroker histories vs exact Fraction ledger',
        text='Every history of account/portfolio transfers, portfolio creation, order submission, clock '
             'updates and quote changes up to the stated depth, from four initial states (empty, funded, '
             'long, short with negative cash) and 3-5 fee configurations, is executed on the real broker; '
             'after every transition master/portfolio cash, account totals, the event history (cents rule) '
             'and global conservation are compared with an exact ledger.',
        note='Trusted: the harness ledger (Fractions), the stub data handler, the recorder wrapped around '
             'Portfolio.transact_asset. Values outside the alphabet are not covered.',
        design='5/C01'),
    'C02': dict(
        technique='explicit-state BFS over real broker/portfolio histories vs exact holdings ledger',
        text='Every history of submissions, clock updates (marks then fills), quote switches and portfolio-level '
             'price marks up to the stated depth on two portfolios (from a flat and from a long/short initial '
             'state) is executed on the real code; after every transition the holdings report (membership, '
             'quantity, market value at the last price seen), total market value and total equity are compared '
             'with the ledger built from the fills as recorded.',
        note='Trusted: harness ledger, stub data handler (mid = (bid+ask)/2), transact_asset recorder. Close-to-zero, '
             're-open and flip-through-zero are reachable within depth 2 by construction of the quantities (2,3,5).',
        design='5/C02'),
    'C04': dict(
        technique='explicit-state BFS over submit/clock-update interleavings with real SimulatedExchange',
        text='All interleavings of order submissions (2 portfolios x 2 assets x buy/sell) with clock updates to every '
             'instant of a 10-instant horizon (both boundaries 14:30:00 and 21:00:00, one second either side, '
             'Saturday, Sunday, Monday) and quote switches up to the stated depth; per transition: pending queues, '
             'the exact set/order of fills of that update (once, in full, sells first, submission order), nothing '
             'filled while closed.',
        note='Trusted: reference exchange hours computed from datetime fields; pending orders are read from '
             'SimulatedBroker.open_orders. Cross-portfolio same-side order is not compared.',
        design='5/C04'),
    'C05': dict(
        technique='exhaustive product enumeration of fills on the real broker vs documented fee rule',
        text='Full product of 26 fee configurations x 4 quote tables (crossed and sub-dollar included) x assets x signed '
             'quantities x open instants, plus buy+sell batches: each point is submit + update on the real broker; price '
             'side, commission = (c+t) x |round(price x qty)|, non-negativity, buy/sell symmetry and time stamp checked.',
        note='Trusted: stub data handler with bid != ask; exact Fraction arithmetic for the expected commission; ties '
             'in consideration rounding accept both neighbours.',
        design='5/C05'),
    'C15': dict(
        technique='explicit-state BFS for the reachable states + exhaustive fault injection at every state',
        text='The reachable states of valid broker histories (3 initial states, stated depth) are enumerated; at each one '
             'every refusal kind named by the property is injected on a fresh rebuild: documented error type, no silent '
             'acceptance, full before/after snapshot equality (cash, holdings, pending orders, history) and a one-step '
             'differential when private state differs.',
        note='Trusted: snapshot covers exactly the observables the statement lists; private clocks are not compared. '
             'One fault per path (a refused fault is proved to change nothing, so sequences reduce to this case).',
        design='5/C15'),
    'C03': dict(
        technique='complete tree enumeration of fill/mark histories on real Position and Portfolio objects',
        text='Every history of fills (6 signed quantities x prices x commissions) and price marks up to depth 4-5 is '
             'executed on the real Position object and through Portfolio.transact_asset (positions discarded at zero and '
             're-opened); on every prefix the P&L identities (total = realised + unrealised = market value - cash flows; '
             'unrealised from the open-side average cost; a mark changes nothing realised) are compared with an exact '
             'cash-flow ledger. All realisable running net-sign paths (long/short/flat/flipped) are shown covered.',
        note='Decides the identities on a generic decimal alphabet and every control path up to k fills, not for all reals; '
             'no random long sequences (sampling is another family).',
        design='5/C03'),
    'C10': dict(
        technique='exhaustive input-grid enumeration of the real long-only sizer vs exact budget inequalities',
        text='Full product equity x buffer x fee rate x weight vectors (1-3 assets, unnormalised/sparse/all-zero) x price '
             'vectors: each point is a real DollarWeightedCashBufferedOrderSizer call on a real funded broker with a real '
             'fee model; q is a non-negative int, q*p+fee <= allocation < (q+1)*p+fee, total <= (1-b)E; refusal grid for '
             'negative weights, buffers outside [0,1] and NaN prices.',
        note='Trusted: Fraction arithmetic of the reference; results within 1e-9 of a floor boundary accept both neighbours.',
        design='5/C10'),
    'C11': dict(
        technique='exhaustive input-grid enumeration of the real long/short sizer vs exact truncation rule',
        text='Full product equity x leverage x fee rate x signed weight vectors x price vectors on the real '
             'LongShortLeveragedOrderSizer: int quantities with the sign of the weight, truncation toward zero, maximality '
             'to within one currency unit, gross exposure <= L*E*(1+f); refusal grid for non-positive leverage and NaN prices.',
        note='Trusted: Fraction arithmetic of the reference; boundary cases counted in boundary_ambiguous.',
        design='5/C11'),
    'C12': dict(
        technique='exhaustive calendar enumeration of the real simulation engine vs independent date arithmetic',
        text='Every start date of the window (quick: 447 consecutive days incl. year end and leap day; thorough: the full '
             '28-year weekday/leap cycle and February 2100) x range lengths x start/end times x all four pre/post flag '
             'combinations: the emitted event stream is compared event by event with a datetime.date reference, strict '
             'monotonicity is checked, and end < start must raise ValueError.',
        note='Trusted: datetime.date weekday arithmetic. End time of day never before the start time of day (quantifier).',
        design='5/C12'),
    'C13': dict(
        technique='exhaustive calendar enumeration of the real rebalance schedules vs independent date arithmetic + clock membership',
        text='Same calendar enumeration as C12 for WeeklyRebalance x 5 weekdays, DailyRebalance, EndOfMonthRebalance (each '
             'x pre-market flag) and BuyAndHoldRebalance: exact date sets, stamps, strict order, and membership of every '
             'instant in the real clock stream for the same range (the test the session uses); invalid weekdays refused.',
        note='Range membership at date granularity; start time of day <= 14:30.',
        design='5/C13'),
    'C06': dict(
        technique='exhaustive dataset x query enumeration on the real CSV data source vs list-based point-in-time lookup + truncation differential',
        text='Every CSV dataset over a 5-day window with weekend/leap-day gaps (all non-empty row subsets up to 4 rows x '
             'missing-cell patterns x row orders x adjusted/unadjusted) is written to scratch and loaded by the real '
             'CSVDailyBarDataSource; every query instant from before the first row to after the last (8 times of day incl. the '
             '14:30:00 / 21:00:00 boundaries and one second either side) is compared with a reference lookup, with the data '
             'handler views (one and two sources, assets starting later) and, without any expected value, with the same query '
             'on the file truncated to rows dated <= t.',
        note='Trusted: the reference lookup (python lists). Lone-missing Close with Adj Close present is excluded (undefined).',
        design='5/C06'),
    'C17': dict(
        technique='exhaustive prefix-closed enumeration of equity curves vs list-based definitions + metamorphic scaling',
        text='Every curve grown from 100 by a 4-5 value step alphabet up to 6-7 observations on 4 calendars (year end, leap-day '
             'month end, mid-year, new year) is fed to the real performance functions, JSONStatistics (incl. file round trip) '
             'and TearsheetStatistics.get_results: returns, cumulative returns, weekly/monthly/yearly aggregates, drawdown '
             'series / maximum / duration, CAGR, Sharpe, Sortino vs definitions on python lists; x2 scaling bit-for-bit, x3.7 '
             'within tolerance; tearsheet = JSON.',
        note='Drawdown definition evaluated on the reported cumulative series (float-noise safe). Order of aggregate groups is not compared.',
        design='5/C17'),
    'C08': dict(
        technique='exhaustive configuration/schedule enumeration of complete real sessions vs independent reference simulator',
        text='Full Cartesian product of weight vectors (1-3 assets, long-only and signed), price-path shapes, 8 schedules '
             '(weekly x 5, daily, end-of-month, buy-and-hold@14:30), 7 start alignments (and start time, length, buffer / '
             'leverage, fee, cash in thorough): each point is a complete BacktestTradingSession on a CSV market loaded by the '
             'real data source, compared fill by fill (time, asset, quantity, price, commission), final cash, holdings and '
             'equity point by point with refmodel.Backtest, written from the documented rules in Fractions.',
        note='Trusted: the reference simulator. Sessions where the rule hits an exact floor/rounding boundary are skipped and counted.',
        design='5/C08'),
    'C14': dict(
        technique='exhaustive start/end/burn-in/schedule enumeration of complete real sessions vs calendar reference + ledger replay',
        text='Full product of start (7 consecutive days x 00:00/14:30), length, burn-in (none, before start, every day of the range x '
             'boundary times incl. exactly 21:00 and 21:01) and 8 rebalance kinds: the instants at which portfolio construction '
             'ran, every fill instant, the equity dates and values (ledger replay of the recorded fills at that close) and both '
             'user-facing tables are compared with the reference.',
        note='Trusted: datetime calendar reference. Tables only consulted with >= 1 rebalance and a non-empty curve (quantifier).',
        design='5/C14'),
    'C16': dict(
        technique='explicit-state BFS to fixpoint over price streams on the real signals + exhaustive session cadence enumeration',
        text='Part 1: for each signal class and every non-empty lookback subset the search over append(asset, price) streams closes '
             '(state = true trailing window U actual deque contents), so definitions and non-interference hold for streams of '
             'every length over the alphabet. Part 2: complete sessions with a real SignalsCollection over start alignments, '
             'lengths and every universe-entry variant of a second asset (before start, at open, exactly at / one second after '
             'each close, after the end, never): each buffer holds exactly the closes since entry, one per business day.',
        note='Trusted: list-based definitions; buffer contents read from AssetPriceBuffers.prices.',
        design='5/C16'),
    'C19': dict(
        technique='exhaustive grids (membership, optimisers) + exhaustive entry-time x schedule enumeration of complete real sessions',
        text='All entry maps over 3 assets x query instants around the boundary on the real universes; all weight dictionaries over '
             '<= 3 assets through both optimisers; and the full product schedule x sizing x entry time of a late asset (incl. '
             'exactly on, one minute before and after every rebalance instant) as complete sessions: allocation keys, fills and '
             'positions only at rebalances >= entry and from the first such rebalance on.',
        note='Order of the dynamic universe list not compared.',
        design='5/C19'),
    'C07': dict(
        technique='exhaustive (configuration x cut day x future rewrite) enumeration of pairs of complete real sessions, bit-for-bit prefix comparison',
        text='For every market (incl. an asset whose data start later and a market with missing cells) and every configuration of the '
             'product alpha {fixed, single-signal, momentum top-1, SMA trend, inverse volatility via real signals} x universe {static, '
             'dynamic} x 5 rebalance kinds x sizing x fee x burn-in, the real session is run on the full data and on every rewritten '
             'world (every cut day of the window incl. weekend days x future rows removed / x3 / x0.25 / blanked / constant / '
             'reversed); fills, history, equity and allocations dated <= T must be bit-identical and failures <= T identical.',
        note='Differential oracle, no expected values; comparison only between two runs of the same code in one interpreter. Quick thins '
             'the configuration product to one third (every value of every dimension kept); thorough is the full product.',
        design='5/C07'),
    'C09': dict(
        technique='explicit-state BFS over rebalance rounds on the real construction model, sizer and broker',
        text='One event = universe subset x alpha weight dictionary (subset / superset / disjoint from holdings, zero weights, an asset in '
             'no universe) x price table; a round constructs orders at a close, fills them at the next open; orders must equal target '
             'minus held for exactly universe U held U alpha keys (ascending, no zero, no duplicate), the recorded allocation row must '
             'cover that set, and holdings after the fills must equal the target. 4 initial holdings, full 4200-event menu in round 1, '
             'reduced menu in later rounds, both sizers.',
        note='The sizer is trusted as a function (decided by C10/C11). Stub universe/alpha/data handler.',
        design='5/C09'),
    'C18': dict(
        technique='stateless choice-sequence (deviation-bounded) exploration of set-iteration order and order-id rank + hash-seed subprocesses + shared-source histories',
        text='(1) ChoiceSet is injected as set/frozenset into all qstrader modules and uuid4 is replaced by a rank-choosing seam; every '
             'execution with <= 2 deviations (quick: 1 for configurations with > 8 choice points) must give one digest per '
             'configuration; (2) fresh interpreters under hash seeds realising all 6 orders of the witness set, plus random; (3) all '
             'ordered pairs of configurations back to back on the same memoised data source, repeats, and a burst of unrelated queries.',
        note='Set literals/comprehensions cannot be intercepted in-process (covered by the hash-seed runs only). Digest = fills without '
             'order ids, equity curve, target allocations with key order.',
        design='5/C18'),
}

NOT_YET = 'check not built yet (work in progress, see DESIGN.md section 5)'


def main():
    props = [json.loads(l) for l in open(os.path.join(HERE, 'properties.jsonl'))]
    checks = []
    na = []
    for p in props:
        pid = p['id']
        c = CHECKS.get(pid)
        if c is None or not os.path.exists(os.path.join(HERE, 'mc', 'props', pid.lower() + '.py')):
            na.append({'property_id': pid, 'reason': NOT_YET})
            continue
        checks.append({
            'property_id': pid,
            'quick_cmd': '%s -m mc.run %s --tier quick' % (PY, pid),
            'thorough_cmd': '%s -m mc.run %s --tier thorough' % (PY, pid),
            'evidence_file': '/verif/evidence/%s.json' % pid,
            'replay_cmd_template': '%s -m mc.run --replay {path}' % PY,
            'engine': 'mc',
            'level_claimed': {'category': 'model_checking', 'text': c['text'],
                              'design_ref': 'DESIGN.md section ' + c['design']},
            'level_note': c['note'],
            'technique': c['technique'],
        })
    man = {
        'version': 1,
        'setup_cmd': '%s -m mc.run --selftest' % PY,
        'hooks': {
            'guard': 'QSTRADER_VERIF',
            'enable': 'no source hooks exist: recorders are attached from the harness process only',
            'baseline_off_cmd': 'cd /repo && /venv/bin/python -m pytest -ra -q -p no:cacheprovider '
                                '--timeout=900 --continue-on-collection-errors',
            'source_commits': [],
            'add_only': True,
        },
        'engines': [{
            'name': 'mc', 'path': '/verif/mc',
            'serves_properties': [c['property_id'] for c in checks],
            'kind_free_text': 'hand-written explicit-state / product / choice-sequence explorer that executes '
                              'the real qstrader code on every transition (no separate model to conform)',
        }],
        'checks': checks,
        'not_applicable': na,
        'notes': 'All checks run /venv/bin/python against /repo (override with QSTRADER_REPO). '
                 'Known findings: /verif/known_findings.json. Replays: /verif/replays/.',
    }
    if not na:
        del man['not_applicable']
    with open(os.path.join(HERE, 'MANIFEST.json'), 'w') as f:
        json.dump(man, f, indent=1)
    print('claimed', [c['property_id'] for c in checks], 'not claimed', [n['property_id'] for n in na])


if __name__ == '__main__':
    main()
