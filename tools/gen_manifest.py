#!/usr/bin/env python3
"""Regenerates /verif/MANIFEST.json from the table below (one entry per claimed property)."""
import json
import os

HERE = os.path.dirname(os.path.dirname(os.path.abspath(__file__)))
PY = '/venv/bin/python'

CHECKS = {
    'C01': dict(
        technique='explicit-state BFS over real SimulatedBroker histories vs exact Fraction ledger',
        text='Every history of account/portfolio transfers, portfolio creation, order submission, clock '
             'updates and quote changes up to the stated depth, from four initial states (empty, funded, '
             'long, short with negative cash) and 3-5 fee configurations, is executed on the real broker; '
             'after every transition master/portfolio cash, account totals, the event history (cents rule) '
             'and global conservation are compared with an exact ledger.',
        note='Trusted: the harness ledger (Fractions), the stub data handler, the recorder wrapped around '
             'Portfolio.transact_asset. Values outside the alphabet are not covered.',
        design='5/C01'),
}

NOT_YET = 'check not built yet (work in progress, see DESIGN.md section 5)'


def main():
    props = [json.loads(l) for l in open(os.path.join(HERE, 'properties.jsonl'))]
    checks = []
    na = []
    for p in props:
        pid = p['id']
        c = CHECKS.get(pid)
        if c is None or not os.path.exists(os.path.join(HERE, 'mc', 'props', pid.lower() + '.py')):
            na.append({'property_id': pid, 'reason': NOT_YET})
            continue
        checks.append({
            'property_id': pid,
            'quick_cmd': '%s -m mc.run %s --tier quick' % (PY, pid),
            'thorough_cmd': '%s -m mc.run %s --tier thorough' % (PY, pid),
            'evidence_file': '/verif/evidence/%s.json' % pid,
            'replay_cmd_template': '%s -m mc.run --replay {path}' % PY,
            'engine': 'mc',
            'level_claimed': {'category': 'model_checking', 'text': c['text'],
                              'design_ref': 'DESIGN.md section ' + c['design']},
            'level_note': c['note'],
            'technique': c['technique'],
        })
    man = {
        'version': 1,
        'setup_cmd': '%s -m mc.run --selftest' % PY,
        'hooks': {
            'guard': 'QSTRADER_VERIF',
            'enable': 'no source hooks exist: recorders are attached from the harness process only',
            'baseline_off_cmd': 'cd /repo && /venv/bin/python -m pytest -ra -q -p no:cacheprovider '
                                '--timeout=900 --continue-on-collection-errors',
            'source_commits': [],
            'add_only': True,
        },
        'engines': [{
            'name': 'mc', 'path': '/verif/mc',
            'serves_properties': [c['property_id'] for c in checks],
            'kind_free_text': 'hand-written explicit-state / product / choice-sequence explorer that executes '
                              'the real qstrader code on every transition (no separate model to conform)',
        }],
        'checks': checks,
        'not_applicable': na,
        'notes': 'All checks run /venv/bin/python against /repo (override with QSTRADER_REPO). '
                 'Known findings: /verif/known_findings.json. Replays: /verif/replays/.',
    }
    if not na:
        del man['not_applicable']
    with open(os.path.join(HERE, 'MANIFEST.json'), 'w') as f:
        json.dump(man, f, indent=1)
    print('claimed', [c['property_id'] for c in checks], 'not claimed', [n['property_id'] for n in na])


if __name__ == '__main__':
    main()
