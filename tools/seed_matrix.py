#!/usr/bin/env python3
"""Run checks against every recorded seeded change and (re)write /verif/seeded/RESULTS.md.

    seed_matrix.py [--tier quick] [--only C04-a C05-b] [--props target|all|C01 C05 ...] [--jobs 2]

For each /verif/seeded/<name>/ the patch is applied to a scratch copy of /repo (outside /repo and
/verif, removed afterwards) and the named checks run with QSTRADER_REPO pointing at the copy;
results accumulate in meta.json['checks'].  RESULTS.md is regenerated from all meta.json files.
"""
import argparse
import concurrent.futures
import json
import os
import shutil
import subprocess
import sys
import tempfile
import time

PY = '/venv/bin/python'
VERIF = os.path.dirname(os.path.dirname(os.path.abspath(__file__)))
SEEDED = os.path.join(VERIF, 'seeded')
ALL = ['C%02d' % i for i in range(1, 20)]


def run_seed(name, props, tier):
    sdir = os.path.join(SEEDED, name)
    meta = json.load(open(os.path.join(sdir, 'meta.json')))
    base = '/dev/shm' if os.path.isdir('/dev/shm') else tempfile.gettempdir()
    work = tempfile.mkdtemp(prefix='qsmx-', dir=base)
    mut = os.path.join(work, 'repo')
    try:
        shutil.copytree('/repo', mut, ignore=shutil.ignore_patterns('.git', '__pycache__', '*.pyc', '.pytest_cache'))
        r = subprocess.run(['patch', '-p1', '-s', '-i', os.path.join(sdir, 'patch.diff')], cwd=mut, capture_output=True, text=True)
        if r.returncode != 0:
            return name, {'_patch': 'does not apply any more: ' + (r.stdout + r.stderr)[-200:]}
        if props == ['target']:
            plist = [meta['breaks_property']]
        elif props == ['all']:
            plist = ALL
        else:
            plist = props
        out = {}
        for prop in plist:
            env = dict(os.environ, QSTRADER_REPO=mut, PYTHONDONTWRITEBYTECODE='1',
                       VERIF_EVIDENCE_DIR=os.path.join(work, 'evidence'), VERIF_REPLAY_DIR=os.path.join(work, 'replays'))
            t0 = time.time()
            r = subprocess.run([PY, '-m', 'mc.run', prop, '--tier', tier], cwd=VERIF, env=env, capture_output=True, text=True)
            viol = [l for l in r.stdout.splitlines() if l.startswith('VIOLATION') or l.startswith('  clause=')]
            verdict = 'KILLED' if r.returncode == 1 and viol else ('SURVIVED' if r.returncode == 0 else 'ERROR rc=%d' % r.returncode)
            out[prop] = {'verdict': verdict, 'tier': tier, 'wall_s': round(time.time() - t0, 1),
                         'first': [v[:400] for v in viol[:2]],
                         'err': (r.stdout + r.stderr)[-500:] if r.returncode not in (0, 1) else ''}
        return name, out
    finally:
        shutil.rmtree(work, ignore_errors=True)


def write_results():
    rows = []
    for name in sorted(os.listdir(SEEDED)):
        mp = os.path.join(SEEDED, name, 'meta.json')
        if not os.path.exists(mp):
            continue
        m = json.load(open(mp))
        checks = m.get('checks', {})
        if m.get('note'):
            m['needs_to_manifest'] = (m.get('needs_to_manifest', '') + ' NOTE: ' + m['note']).strip()
        killed = sorted(p for p, c in checks.items() if c['verdict'] == 'KILLED')
        survived = sorted(p for p, c in checks.items() if c['verdict'] == 'SURVIVED')
        errors = sorted(p for p, c in checks.items() if c['verdict'].startswith('ERROR'))
        tgt = m['breaks_property']
        first = ''
        if tgt in checks and checks[tgt]['first']:
            f = checks[tgt]['first'][-1]
            first = f.split('detail=')[0].replace('clause=', '').strip()
        status = checks.get(tgt, {}).get('verdict', 'not run')
        if m.get('patch_status'):
            status = 'obsolete (%s)' % status
        rows.append((name, tgt, 'yes' if m.get('confirmed') else 'NO', status,
                     first, ' '.join(killed), ' '.join(survived), ' '.join(errors), m.get('needs_to_manifest', '')))
    with open(os.path.join(SEEDED, 'RESULTS.md'), 'w') as f:
        f.write('# Seeded changes: which checks catch which change\n\n')
        f.write('Every change below was produced independently (sub-agents that saw only the property text), keeps the 151 '
                'tests green, and comes with a demonstration that fails with the change and passes without it '
                '(`confirmed`). `target` is the verdict of the quick check of the property the change was written against; '
                '`also killed by` / `survived` list every other check that was run against it.\n\n')
        f.write('| seed | property | confirmed | target check | clause | killed by | survived | error | needs |\n')
        f.write('|---|---|---|---|---|---|---|---|---|\n')
        for r in rows:
            f.write('| ' + ' | '.join(str(x).replace('|', '/') for x in r) + ' |\n')
        n = len(rows)
        k = sum(1 for r in rows if r[3] == 'KILLED')
        o = sum(1 for r in rows if r[3].startswith('obsolete'))
        f.write('\n%d seeded changes: %d caught by the check of their own property, %d obsolete (the patch no longer applies '
                'after a repair of the library; each is re-based as <name>2), %d not caught by their own property (see the note in '
                'their meta.json).\n' % (n, k, o, n - k - o))
    return rows


def main():
    ap = argparse.ArgumentParser()
    ap.add_argument('--tier', default='quick')
    ap.add_argument('--only', nargs='*')
    ap.add_argument('--props', nargs='*', default=['target'])
    ap.add_argument('--jobs', type=int, default=2)
    ap.add_argument('--report-only', action='store_true')
    a = ap.parse_args()
    if not a.report_only:
        names = [n for n in sorted(os.listdir(SEEDED)) if os.path.exists(os.path.join(SEEDED, n, 'meta.json'))]
        if a.only:
            names = [n for n in names if n in a.only]
        with concurrent.futures.ThreadPoolExecutor(max_workers=a.jobs) as ex:
            for name, out in ex.map(lambda n: run_seed(n, a.props, a.tier), names):
                mp = os.path.join(SEEDED, name, 'meta.json')
                m = json.load(open(mp))
                m.setdefault('checks', {}).update({k: v for k, v in out.items() if not k.startswith('_')})
                if '_patch' in out:
                    m['patch_status'] = out['_patch']
                json.dump(m, open(mp, 'w'), indent=1)
                print(name, {k: v['verdict'] if isinstance(v, dict) else v for k, v in out.items()})
                sys.stdout.flush()
    rows = write_results()
    bad = [r for r in rows if r[3] != 'KILLED' and not r[3].startswith('obsolete')]
    print('%d seeds, %d not killed by their target check: %s' % (len(rows), len(bad), [r[0] for r in bad]))


if __name__ == '__main__':
    main()
