#!/usr/bin/env python3
"""Confirm a seeded change delivered by a sub-agent and record it under /verif/seeded/<name>/.

    intake_seed.py --src /tmp/seed/out-C04 --name C04-a --prop C04 [--also C01 C05] [--tier quick]

Steps (all on scratch copies of /repo outside /repo and /verif, removed afterwards):
  1. demo.py on the UNCHANGED tree must exit 0;
  2. patch.diff must apply; the pinned test-suite must pass on the changed tree;
  3. demo.py on the changed tree must exit non-zero;
  4. the quick check of the target property (and of --also) is run against the changed tree.
Writes patch.diff, demo.py, notes.md (if any) and meta.json; prints a one-line verdict.
"""
import argparse
import json
import os
import shutil
import subprocess
import sys
import tempfile
import time

PY = '/venv/bin/python'
VERIF = os.path.dirname(os.path.dirname(os.path.abspath(__file__)))


def sh(cmd, cwd=None, env=None, timeout=3600):
    r = subprocess.run(cmd, cwd=cwd, env=env, capture_output=True, text=True, timeout=timeout)
    return r.returncode, r.stdout, r.stderr


def main():
    ap = argparse.ArgumentParser()
    ap.add_argument('--src', required=True)
    ap.add_argument('--name', required=True)
    ap.add_argument('--prop', required=True)
    ap.add_argument('--also', nargs='*', default=[])
    ap.add_argument('--tier', default='quick')
    ap.add_argument('--needs', default='')
    a = ap.parse_args()
    base = '/dev/shm' if os.path.isdir('/dev/shm') else tempfile.gettempdir()
    work = tempfile.mkdtemp(prefix='qsseed-', dir=base)
    clean, mut = os.path.join(work, 'clean'), os.path.join(work, 'mut')
    ign = shutil.ignore_patterns('.git', '__pycache__', '*.pyc', '.pytest_cache')
    meta = {'name': a.name, 'breaks_property': a.prop, 'needs_to_manifest': a.needs, 'ran': [], 'confirmed': False,
            'date': time.strftime('%Y-%m-%d')}
    try:
        shutil.copytree('/repo', clean, ignore=ign)
        shutil.copytree('/repo', mut, ignore=ign)
        patch = os.path.join(a.src, 'patch.diff')
        demo = os.path.join(a.src, 'demo.py')
        rc, so, se = sh(['patch', '-p1', '-s', '-i', patch], cwd=mut)
        meta['ran'].append({'cmd': 'patch -p1 < patch.diff', 'rc': rc})
        if rc != 0:
            print('REJECT %s: patch does not apply: %s %s' % (a.name, so, se))
            return 3
        e_clean = dict(os.environ, PYTHONPATH=clean, PYTHONDONTWRITEBYTECODE='1')
        e_mut = dict(os.environ, PYTHONPATH=mut, PYTHONDONTWRITEBYTECODE='1')
        rc0, so0, se0 = sh([PY, demo], cwd=work, env=e_clean)
        meta['ran'].append({'cmd': 'demo.py on unchanged tree', 'rc': rc0, 'tail': (so0 + se0)[-300:]})
        rc1, so1, se1 = sh([PY, demo], cwd=work, env=e_mut)
        meta['ran'].append({'cmd': 'demo.py on changed tree', 'rc': rc1, 'tail': (so1 + se1)[-600:]})
        rct, sot, _ = sh([PY, '-m', 'pytest', '-q', '-p', 'no:cacheprovider', '--timeout=900'], cwd=mut, env=e_mut)
        tail = (sot.strip().splitlines() or ['?'])[-1]
        meta['ran'].append({'cmd': 'pytest on changed tree', 'rc': rct, 'tail': tail})
        ok = (rc0 == 0 and rc1 != 0 and rct == 0)
        meta['confirmed'] = ok
        if not ok:
            print('REJECT %s: demo clean rc=%d, demo changed rc=%d, tests rc=%d (%s)' % (a.name, rc0, rc1, rct, tail))
        results = {}
        if ok:
            for prop in [a.prop] + list(a.also):
                env = dict(os.environ, QSTRADER_REPO=mut, PYTHONDONTWRITEBYTECODE='1',
                           VERIF_EVIDENCE_DIR=os.path.join(work, 'evidence'),
                           VERIF_REPLAY_DIR=os.path.join(work, 'replays'))
                t0 = time.time()
                rc, so, se = sh([PY, '-m', 'mc.run', prop, '--tier', a.tier], cwd=VERIF, env=env)
                viol = [l for l in so.splitlines() if l.startswith('VIOLATION') or l.startswith('  clause=')]
                verdict = 'KILLED' if rc == 1 and viol else ('SURVIVED' if rc == 0 else 'ERROR rc=%d' % rc)
                results[prop] = {'verdict': verdict, 'tier': a.tier, 'wall_s': round(time.time() - t0, 1),
                                 'first': [v[:400] for v in viol[:2]], 'err': (so + se)[-600:] if rc not in (0, 1) else ''}
                print('%s %s by %s (%s): %s' % (a.name, verdict, prop, a.tier, ' | '.join(v[:200] for v in viol[1:2])))
        out = os.path.join(VERIF, 'seeded', a.name)
        os.makedirs(out, exist_ok=True)
        old = {}
        if os.path.exists(os.path.join(out, 'meta.json')):
            try:
                old = json.load(open(os.path.join(out, 'meta.json'))).get('checks', {})
            except Exception:
                old = {}
        old.update(results)
        meta['checks'] = old
        shutil.copy(patch, os.path.join(out, 'patch.diff'))
        shutil.copy(demo, os.path.join(out, 'demo.py'))
        if os.path.exists(os.path.join(a.src, 'notes.md')):
            shutil.copy(os.path.join(a.src, 'notes.md'), os.path.join(out, 'notes.md'))
        with open(os.path.join(out, 'meta.json'), 'w') as f:
            json.dump(meta, f, indent=1)
        return 0 if ok else 4
    finally:
        shutil.rmtree(work, ignore_errors=True)


if __name__ == '__main__':
    sys.exit(main())
