#!/usr/bin/env python3
"""Regenerate the bounds / cost table of DESIGN.md section 12 from evidence files.

    cost_table.py [--quick /verif/evidence] [--thorough /verif/evidence_thorough] [--write]

Reads <dir>/<Cxx>.json of both tiers (written by the checks themselves) and prints a markdown table;
with --write the table between the markers <!-- COST-TABLE-BEGIN --> / <!-- COST-TABLE-END --> of
DESIGN.md is replaced.
"""
import argparse
import json
import os

VERIF = os.path.dirname(os.path.dirname(os.path.abspath(__file__)))
ALL = ['C%02d' % i for i in range(1, 20)]


def human(n):
    if n is None:
        return '-'
    n = float(n)
    for unit, div in (('G', 1e9), ('M', 1e6), ('k', 1e3)):
        if n >= div:
            return '%.1f %s' % (n / div, unit)
    return '%d' % n


def row(ev):
    if ev is None:
        return ['-'] * 5
    c = ev['coverage']
    caps = c.get('caps_hit') or []
    return [human(c.get('states')), human(c.get('transitions')), human(c.get('traces_validated_against_impl') or c.get('evaluations')),
            '%d' % c.get('distinct_outcomes', 0), '%.0f s%s' % (ev.get('wall_s', 0.0), '' if not caps else ' (caps: %d)' % len(caps))]


def load(d, p):
    fn = os.path.join(d, p + '.json')
    if not os.path.exists(fn):
        return None
    return json.load(open(fn))


def main():
    ap = argparse.ArgumentParser()
    ap.add_argument('--quick', default=os.path.join(VERIF, 'evidence'))
    ap.add_argument('--thorough', default=os.path.join(VERIF, 'evidence_thorough'))
    ap.add_argument('--write', action='store_true')
    a = ap.parse_args()
    lines = ['| prop | tier | states | transitions | executions of real code | distinct outcomes | wall | what is enumerated (the check\'s own `rule`) |',
             '|---|---|---|---|---|---|---|---|']
    for p in ALL:
        for tier, d in (('quick', a.quick), ('thorough', a.thorough)):
            ev = load(d, p)
            if ev is not None and ev.get('tier') != tier:
                ev = None
            r = row(ev)
            rule = '' if ev is None else str(ev['coverage'].get('rule', '')).replace('|', '/').replace('\n', ' ')
            lines.append('| %s | %s | %s | %s |' % (p, tier, ' | '.join(r), rule))
    table = '\n'.join(lines)
    if not a.write:
        print(table)
        return
    fn = os.path.join(VERIF, 'DESIGN.md')
    s = open(fn).read()
    b, e = '<!-- COST-TABLE-BEGIN -->', '<!-- COST-TABLE-END -->'
    if b not in s:
        raise SystemExit('markers not found in DESIGN.md')
    s = s[:s.index(b) + len(b)] + '\n' + table + '\n' + s[s.index(e):]
    open(fn, 'w').write(s)
    print('DESIGN.md section 12 table rewritten (%d rows)' % (len(lines) - 2))


if __name__ == '__main__':
    main()
