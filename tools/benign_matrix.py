#!/usr/bin/env python3
"""Property-PRESERVING changes: every check must stay silent on them.

    benign_matrix.py --intake /tmp/seed7            # take out-C??/v?/ from a campaign directory
    benign_matrix.py [--only C04-g1 ...] [--props anchored|all|C01 ...] [--jobs 3] [--tier quick]
    benign_matrix.py --report-only

A benign change is recorded as /verif/benign/<name>/ (patch.diff, notes.md, meta.json).  For each one the
patch is applied to a scratch copy of /repo (outside /repo and /verif, removed afterwards), the pinned
test-suite is run on it, and the chosen checks run with QSTRADER_REPO pointing at the copy.  The expected
verdict of every check is SILENT (exit 0, no VIOLATION line); ALARM is a false alarm of the machinery (or
evidence that the change is not benign after all - decided by reading the replay); ERROR is a harness
failure (exit 2), i.e. the check depends on an implementation detail the property does not promise.

`anchored` (default) = the property the change was written against plus every property one of whose
anchor files the patch touches.
"""
import argparse
import concurrent.futures
import json
import os
import re
import shutil
import subprocess
import sys
import tempfile
import time

PY = '/venv/bin/python'
VERIF = os.path.dirname(os.path.dirname(os.path.abspath(__file__)))
BENIGN = os.path.join(VERIF, 'benign')
ALL = ['C%02d' % i for i in range(1, 20)]
IGN = shutil.ignore_patterns('.git', '__pycache__', '*.pyc', '.pytest_cache')


def anchors():
    m = {}
    for line in open(os.path.join(VERIF, 'properties.jsonl')):
        p = json.loads(line)
        m[p['id']] = set(p['anchors']['files'])
    return m


def touched(patch):
    return set(re.findall(r'^\+\+\+ b/(\S+)', open(patch).read(), flags=re.M))


def intake(src, wave='g'):
    os.makedirs(BENIGN, exist_ok=True)
    n = 0
    for d in sorted(os.listdir(src)):
        if not d.startswith('out-C'):
            continue
        prop = d[4:]
        for v in sorted(os.listdir(os.path.join(src, d))):
            patch = os.path.join(src, d, v, 'patch.diff')
            if not os.path.exists(patch) or os.path.getsize(patch) == 0:
                continue
            name = '%s-%s%s' % (prop, wave, v.lstrip('v'))
            out = os.path.join(BENIGN, name)
            os.makedirs(out, exist_ok=True)
            have = os.path.join(out, 'patch.diff')
            if os.path.exists(have) and open(have).read() != open(patch).read() and os.path.exists(os.path.join(out, 'meta.json')):
                os.remove(os.path.join(out, 'meta.json'))      # the change was revised: forget earlier verdicts
            shutil.copy(patch, have)
            notes = os.path.join(src, d, v, 'notes.md')
            if os.path.exists(notes):
                shutil.copy(notes, os.path.join(out, 'notes.md'))
            mp = os.path.join(out, 'meta.json')
            if not os.path.exists(mp):
                json.dump({'name': name, 'written_against': prop, 'files': sorted(touched(patch)),
                           'date': time.strftime('%Y-%m-%d'), 'checks': {}}, open(mp, 'w'), indent=1)
            n += 1
    print('took in %d benign changes' % n)


def run_one(name, props, tier):
    bdir = os.path.join(BENIGN, name)
    meta = json.load(open(os.path.join(bdir, 'meta.json')))
    base = '/dev/shm' if os.path.isdir('/dev/shm') else tempfile.gettempdir()
    work = tempfile.mkdtemp(prefix='qsbn-', dir=base)
    mut = os.path.join(work, 'repo')
    out = {}
    try:
        shutil.copytree('/repo', mut, ignore=IGN)
        r = subprocess.run(['patch', '-p1', '-s', '-i', os.path.join(bdir, 'patch.diff')], cwd=mut, capture_output=True, text=True)
        if r.returncode != 0:
            return name, {'_patch': 'does not apply: ' + (r.stdout + r.stderr)[-200:]}
        if 'tests' not in meta:
            env = dict(os.environ, PYTHONPATH=mut, PYTHONDONTWRITEBYTECODE='1')
            r = subprocess.run([PY, '-m', 'pytest', '-q', '-p', 'no:cacheprovider'], cwd=mut, env=env, capture_output=True, text=True)
            out['_tests'] = {'rc': r.returncode, 'tail': (r.stdout.strip().splitlines() or ['?'])[-1]}
        if props == ['anchored']:
            am = anchors()
            files = set(meta['files'])
            plist = sorted({meta['written_against']} | {p for p, fs in am.items() if fs & files})
        elif props == ['target']:
            plist = [meta['written_against']]
        elif props == ['all']:
            plist = ALL
        else:
            plist = props
        for prop in plist:
            env = dict(os.environ, QSTRADER_REPO=mut, PYTHONDONTWRITEBYTECODE='1',
                       VERIF_EVIDENCE_DIR=os.path.join(work, 'evidence'), VERIF_REPLAY_DIR=os.path.join(work, 'replays'))
            t0 = time.time()
            r = subprocess.run([PY, '-m', 'mc.run', prop, '--tier', tier], cwd=VERIF, env=env, capture_output=True, text=True)
            viol = [l for l in r.stdout.splitlines() if l.startswith('VIOLATION') or l.startswith('  clause=')]
            verdict = 'SILENT' if r.returncode == 0 and not viol else ('ALARM' if r.returncode == 1 else 'ERROR rc=%d' % r.returncode)
            rec = {'verdict': verdict, 'tier': tier, 'wall_s': round(time.time() - t0, 1), 'first': [v[:600] for v in viol[:2]],
                   'err': (r.stdout + r.stderr)[-800:] if r.returncode not in (0, 1) else ''}
            if verdict == 'ALARM':
                # keep the replay for triage
                rp = re.search(r'replay=(\S+)', r.stdout)
                if rp and os.path.exists(rp.group(1)):
                    keep = os.path.join(bdir, 'alarm-%s.json' % prop)
                    shutil.copy(rp.group(1), keep)
            out[prop] = rec
        return name, out
    finally:
        shutil.rmtree(work, ignore_errors=True)


def write_results():
    rows = []
    for name in sorted(os.listdir(BENIGN)):
        mp = os.path.join(BENIGN, name, 'meta.json')
        if not os.path.exists(mp):
            continue
        m = json.load(open(mp))
        c = m.get('checks', {})
        silent = sorted(p for p, v in c.items() if v['verdict'] == 'SILENT')
        alarm = sorted(p for p, v in c.items() if v['verdict'] == 'ALARM')
        err = sorted(p for p, v in c.items() if v['verdict'].startswith('ERROR'))
        rows.append((name, m['written_against'], m.get('tests', {}).get('tail', '?'), ' '.join(silent), ' '.join(alarm), ' '.join(err),
                     m.get('triage', '')))
    with open(os.path.join(BENIGN, 'RESULTS.md'), 'w') as f:
        f.write('# Property-preserving changes: every check must stay silent\n\n'
                'Each change below was written by a sub-agent that saw only the text of one property and was asked for a '
                'realistic change that KEEPS it true (a refactor, a change of behaviour outside what the property promises, or '
                'a deliberately dangerous-looking but harmless change). `silent` lists the quick checks run against it that '
                'stayed silent; anything under `alarm`/`error` was triaged (column `triage`) and, where the machinery was at '
                'fault, the machinery was corrected and the check re-run.\n\n')
        f.write('| change | written against | tests | silent | alarm | error | triage |\n|---|---|---|---|---|---|---|\n')
        for r in rows:
            f.write('| ' + ' | '.join(str(x).replace('|', '/') for x in r) + ' |\n')
        tp = sum(1 for r in rows if (r[4] or r[5]) and str(r[6]).startswith('TRUE POSITIVE'))
        f.write('\n%d changes; %d with an alarm or error still recorded, of which %d are correct alarms: the change, written '
                'against one property, breaks another one (see triage).\n' % (len(rows), sum(1 for r in rows if r[4] or r[5]), tp))
    return rows


def main():
    ap = argparse.ArgumentParser()
    ap.add_argument('--intake')
    ap.add_argument('--wave', default='g')
    ap.add_argument('--tier', default='quick')
    ap.add_argument('--only', nargs='*')
    ap.add_argument('--props', nargs='*', default=['anchored'])
    ap.add_argument('--jobs', type=int, default=3)
    ap.add_argument('--report-only', action='store_true')
    a = ap.parse_args()
    if a.intake:
        intake(a.intake, a.wave)
        return
    if not a.report_only:
        names = [n for n in sorted(os.listdir(BENIGN)) if os.path.exists(os.path.join(BENIGN, n, 'meta.json'))]
        if a.only:
            names = [n for n in names if n in a.only]
        with concurrent.futures.ThreadPoolExecutor(max_workers=a.jobs) as ex:
            for name, out in ex.map(lambda n: run_one(n, a.props, a.tier), names):
                mp = os.path.join(BENIGN, name, 'meta.json')
                m = json.load(open(mp))
                if '_tests' in out:
                    m['tests'] = out['_tests']
                if '_patch' in out:
                    m['patch_status'] = out['_patch']
                m.setdefault('checks', {}).update({k: v for k, v in out.items() if not k.startswith('_')})
                json.dump(m, open(mp, 'w'), indent=1)
                print(name, m.get('tests', {}).get('tail', ''), {k: v['verdict'] for k, v in out.items() if not k.startswith('_')})
                sys.stdout.flush()
    rows = write_results()
    bad = [r[0] for r in rows if r[4] or r[5]]
    print('%d benign changes, %d with alarm/error: %s' % (len(rows), len(bad), bad))


if __name__ == '__main__':
    main()
