#!/usr/bin/env python3
"""Run checks against a mutated copy of /repo (never touches /repo).

    mutate.py --patch X.diff [--tests] [--tier quick] C01 C05 ...
    mutate.py --sed 'FILE@@OLD@@NEW' [--tests] C04

Copies /repo's working tree (without .git) to a scratch directory outside /repo and /verif,
applies the change, optionally runs the pinned test-suite on the copy (a mutant only counts
if all tests still pass), runs the named checks with QSTRADER_REPO=<copy>, prints one line
per check (KILLED / SURVIVED / ERROR) and removes the copy.
"""
import argparse
import os
import shutil
import subprocess
import sys
import tempfile

PY = '/venv/bin/python'
VERIF = os.path.dirname(os.path.dirname(os.path.abspath(__file__)))


def main():
    ap = argparse.ArgumentParser()
    ap.add_argument('--patch')
    ap.add_argument('--sed', action='append', default=[])
    ap.add_argument('--tests', action='store_true')
    ap.add_argument('--tier', default='quick')
    ap.add_argument('--keep', action='store_true')
    ap.add_argument('--replays', help='directory to keep replay files in')
    ap.add_argument('--repo', default='/repo')
    ap.add_argument('props', nargs='*')
    a = ap.parse_args()
    base = '/dev/shm' if os.path.isdir('/dev/shm') else tempfile.gettempdir()
    work = tempfile.mkdtemp(prefix='qsmut-', dir=base)
    copy = os.path.join(work, 'repo')
    rc = 0
    try:
        shutil.copytree(a.repo, copy, ignore=shutil.ignore_patterns('.git', '__pycache__', '*.pyc', '.pytest_cache'))
        if a.patch:
            r = subprocess.run(['patch', '-p1', '-s', '-i', os.path.abspath(a.patch)], cwd=copy,
                               capture_output=True, text=True)
            if r.returncode != 0:
                print('PATCH-FAILED', r.stdout, r.stderr)
                return 3
        for spec in a.sed:
            f, old, new = spec.split('@@')
            p = os.path.join(copy, f)
            s = open(p).read()
            if old not in s:
                print('SED-FAILED: %r not in %s' % (old, f))
                return 3
            open(p, 'w').write(s.replace(old, new, 1))
        env = dict(os.environ, QSTRADER_REPO=copy, PYTHONPATH=copy, PYTHONDONTWRITEBYTECODE='1',
                   VERIF_EVIDENCE_DIR=os.path.join(work, 'evidence'),
                   VERIF_REPLAY_DIR=a.replays or os.path.join(work, 'replays'))
        if a.tests:
            r = subprocess.run([PY, '-m', 'pytest', '-q', '-p', 'no:cacheprovider', '-x', '--timeout=900'],
                               cwd=copy, env=env, capture_output=True, text=True)
            tail = (r.stdout.strip().splitlines() or ['?'])[-1]
            chk = subprocess.run([PY, '-c', 'import qstrader;print(qstrader.__file__)'], cwd=copy, env=env,
                                 capture_output=True, text=True).stdout.strip()
            print('TESTS rc=%d %s (qstrader=%s)' % (r.returncode, tail, chk))
            if r.returncode != 0:
                print('MUTANT-REJECTED-BY-TESTS')
                return 4
        for prop in a.props:
            r = subprocess.run([PY, '-m', 'mc.run', prop, '--tier', a.tier], cwd=VERIF, env=env,
                               capture_output=True, text=True)
            out = r.stdout + r.stderr
            viol = [l for l in out.splitlines() if l.startswith('VIOLATION') or l.startswith('  clause=')]
            if r.returncode == 1 and viol:
                print('KILLED %s: %s' % (prop, ' | '.join(v[:300] for v in viol[:2])))
            elif r.returncode == 0:
                print('SURVIVED %s: %s' % (prop, (out.strip().splitlines() or ['?'])[0][:200]))
                rc = max(rc, 1)
            else:
                print('ERROR %s rc=%d: %s' % (prop, r.returncode, out[-1500:]))
                rc = max(rc, 2)
        return rc
    finally:
        if not a.keep:
            shutil.rmtree(work, ignore_errors=True)
        else:
            print('kept', copy)


if __name__ == '__main__':
    sys.exit(main())
