"""C16 - Signals equal their definitions over the trailing window of supplied closes."""
import datetime
import itertools
import math
import shutil
from fractions import Fraction

import pandas as pd

from .. import market as mk
from .. import refmodel as rm
from .. import sessionlab as sl
from ..brokermachine import close
from ..core import bfs, product, digest
from ..env import scratch_dir
from .c08 import MARKET_DAYS, BASES

START = pd.Timestamp('2020-03-02 00:00:00', tz='UTC')
CLASSES = ['momentum', 'sma', 'vol']


def make_signal(kind, assets, lookbacks):
    from qstrader.asset.universe.static import StaticUniverse
    from qstrader.signals.momentum import MomentumSignal
    from qstrader.signals.sma import SMASignal
    from qstrader.signals.vol import VolatilitySignal
    cls = {'momentum': MomentumSignal, 'sma': SMASignal, 'vol': VolatilitySignal}[kind]
    return cls(START, StaticUniverse(list(assets)), list(lookbacks))


def definition(kind, stream, n):
    """stream: list of Fractions (all prices ever appended for the asset, oldest first)."""
    if kind == 'sma':
        w = stream[-n:]
        return float(sum(w) / len(w))
    w = stream[-(n + 1):]
    if len(w) < 2:
        return 0.0
    if kind == 'momentum':
        return float(w[-1] / w[0] - 1)
    rets = [w[i] / w[i - 1] - 1 for i in range(1, len(w))]
    m = sum(rets) / len(rets)
    return math.sqrt(float(sum((r - m) ** 2 for r in rets) / len(rets))) * math.sqrt(252)


class SignalSpec(object):
    """BFS harness: events ('append', asset, price); closes under the trailing-window abstraction."""

    def __init__(self, kind, assets, lookbacks, prices, known=None):
        self.kind, self.assets, self.lookbacks, self.prices = kind, list(assets), list(lookbacks), list(prices)
        # assets known when the signal is created; the others appear later (as a dynamic universe does it)
        self.known = list(assets) if known is None else list(known)
        self.maxw = max(lookbacks) + 1

    def case(self, hist):
        return {'part': 'definitions', 'kind': self.kind, 'assets': self.assets, 'lookbacks': self.lookbacks,
                'known': self.known, 'history': [list(e) for e in hist]}

    def initial(self):
        return [()]

    def build(self, hist):
        sig = make_signal(self.kind, self.known, self.lookbacks)
        solo = {(a, n): make_signal(self.kind, [a], [n]) for a in self.assets for n in self.lookbacks}
        streams = {a: [] for a in self.assets}
        for ev in hist:
            _, a, p = ev
            sig.append(a, float(Fraction(p)))
            for n in self.lookbacks:
                solo[(a, n)].append(a, float(Fraction(p)))
            streams[a].append(Fraction(p))
        return sig, solo, streams

    def evaluate(self, hist):
        sig, solo, streams = self.build(hist)
        fails = []
        for a in self.assets:
            for n in self.lookbacks:
                if self.kind == 'sma' and not streams[a]:
                    continue
                if not streams[a] and a not in self.known:
                    continue        # an asset the signal has never heard of has no window to query
                try:
                    got = sig(a, n)
                    alone = solo[(a, n)](a, n)
                except Exception as e:  # noqa
                    fails.append({'clause': 'C16.signal_error', 'detail': {'asset': a, 'lookback': n, 'error': repr(e)}})
                    continue
                want = definition(self.kind, streams[a], n)
                if not close(got, want):
                    fails.append({'clause': 'C16.%s_definition' % self.kind,
                                  'detail': {'asset': a, 'lookback': n, 'impl': float(got), 'ref': want,
                                             'stream': [float(x) for x in streams[a]]}})
                if not (got == alone or close(got, alone, 1e-12)):
                    fails.append({'clause': 'C16.interference',
                                  'detail': {'asset': a, 'lookback': n, 'joint': float(got), 'alone': float(alone),
                                             'streams': {k: [float(x) for x in v] for k, v in streams.items()}}})
        for f in fails:
            f['case'] = self.case(hist)
        # key: true trailing windows U actual buffer contents
        try:
            bufs = tuple(sorted((k, tuple(v)) for k, v in sig.buffers.prices.items()))
        except Exception:  # noqa
            bufs = None
        key = None if fails else digest((tuple((a, tuple(streams[a][-self.maxw:])) for a in self.assets), bufs))
        full = all(len(streams[a]) >= self.maxw for a in self.assets)
        return key, fails, {'nontrivial': full, 'outcomes': [(self.kind, tuple(self.lookbacks), min(len(s) for s in streams.values()))]}

    def check_initial(self, hist):
        return self.evaluate(hist)

    def rebuild_key(self, hist):
        return self.evaluate(hist)[0]

    def expand(self, hist):
        outs = []
        for a in self.assets:
            for p in self.prices:
                ev = ('append', a, p)
                key, fails, tags = self.evaluate(hist + (ev,))
                outs.append((ev, key, fails, tags))
        return outs


def wide_stream(item):
    """40 assets on one signal object (ten of them unknown when it is created), 14 rounds of one price per asset:
    after every round every value of every asset and lookback is compared with the definition"""
    kind, lookbacks = item
    assets = ['W%02d' % i for i in range(40)]
    known = assets[:30]
    sig = make_signal(kind, known, lookbacks)
    streams = {a: [] for a in assets}
    fails, n = [], 0
    for rnd in range(14):
        for i, a in enumerate(assets):
            if a not in known and rnd < 4:
                continue
            p = Fraction(1000 + 37 * i + ((rnd * (i % 5 + 1) * 13) % 41) - 3 * rnd * (i % 2), 100)
            sig.append(a, float(p))
            streams[a].append(p)
        for a in assets:
            if not streams[a]:
                continue
            for lb in lookbacks:
                n += 1
                try:
                    got = sig(a, lb)
                except Exception as e:  # noqa
                    fails.append({'clause': 'C16.signal_error', 'detail': {'asset': a, 'lookback': lb, 'error': repr(e)}})
                    continue
                want = definition(kind, streams[a], lb)
                if not close(got, want):
                    fails.append({'clause': 'C16.%s_definition' % kind,
                                  'detail': {'asset': a, 'lookback': lb, 'impl': float(got), 'ref': want, 'round': rnd,
                                             'assets_on_the_signal': len(assets)}})
        if fails:
            break
    for f in fails:
        f['case'] = {'part': 'wide_stream', 'kind': kind, 'lookbacks': list(lookbacks)}
    return {'viols': fails[:4], 'execs': n, 'evals': n, 'nontrivial': True, 'outcome': ('wide', kind, tuple(lookbacks)),
            'counters': {'wide_stream_values': n}}


# ------------------------------------------------------------------ part 2: cadence in a session
FIRST = datetime.date(2020, 2, 24)
MARKET_SPEC = {'AAA': ('rising', BASES['AAA']), 'BBB': ('zigzag', BASES['BBB']), 'CCC': ('gapdown', BASES['CCC'])}


def cadence_items(tier):
    offs = [0, 2, 5, 6] if tier == 'quick' else list(range(7))
    lens = [1, 3, 6, 9] if tier == 'quick' else list(range(1, 10))
    out = []
    for off in offs:
        for n in lens:
            out.append({'start': (FIRST + datetime.timedelta(days=off)).isoformat(), 'bdays': n})
    # long sessions with a burn-in well after the start (the usual way signals are used): the closes BEFORE the burn-in
    # are observations too - the first values read after it must already span them
    for off, n, burn in ((0, 22, 16), (2, 22, 13)) if tier == 'quick' else ((0, 22, 16), (2, 22, 13), (5, 30, 20), (6, 30, 25), (1, 24, 23)):
        out.append({'start': (FIRST + datetime.timedelta(days=off)).isoformat(), 'bdays': n, 'burn': burn})
    return out


def cadence_cfgs(item):
    d0 = datetime.date.fromisoformat(item['start'])
    days = sl.bdays_from(d0, item['bdays'])
    start = rm.utc(d0, 0, 0)
    end = rm.utc(days[-1], 23, 59)
    variants = [('static', None)]
    variants.append(('before_start', start - datetime.timedelta(days=2)))
    variants.append(('after_end', end + datetime.timedelta(days=1)))
    variants.append(('never', None))
    burn = None
    if item.get('burn') is not None:
        burn = rm.utc(days[item['burn']], 0, 0).isoformat()
        variants = [('static', None), ('never', None), ('day3_at_close', rm.utc(days[3], 21, 0)),
                    ('day%d_after_close' % (item['burn'] - 2), rm.utc(days[item['burn'] - 2], 21, 0, 1))]
    else:
        for k, d in enumerate(days):
            variants.append(('day%d_at_close' % k, rm.utc(d, 21, 0)))
            variants.append(('day%d_after_close' % k, rm.utc(d, 21, 0, 1)))
            variants.append(('day%d_at_open' % k, rm.utc(d, 14, 30)))
    for label, entry in variants:
        cfg = {'start': start.isoformat(), 'end': end.isoformat(), 'burn_in': burn, 'assets': ['EQ:AAA', 'EQ:BBB'],
               'alpha': {'kind': 'fixed', 'weights': {'EQ:AAA': 1.0}}, 'rebalance': 'daily', 'weekday': None,
               'long_only': True, 'buffer': 0.05, 'fee': ['zero'], 'cash': 10007.31, 'signals': {'lookbacks': [12, 2, 1]}}
        if label == 'static':
            cfg['universe'] = {'kind': 'static'}
            yield label, entry, days, cfg
        else:
            early = (start - datetime.timedelta(days=5)).isoformat()
            late = None if entry is None else entry.isoformat()
            cfg['universe'] = {'kind': 'dynamic', 'entries': {'EQ:AAA': early, 'EQ:BBB': late}}
            yield label, entry, days, cfg
            # the same universe with the late entrant LISTED FIRST in the mapping
            cfg2 = dict(cfg, universe={'kind': 'dynamic', 'entries': {'EQ:BBB': late, 'EQ:AAA': early}})
            yield label + '_listed_first', entry, days, cfg2
            if label.startswith('day') and label.endswith('_at_close'):
                # TWO assets join at the same instant: each keeps its own window of its own closes
                cfg3 = dict(cfg, assets=['EQ:AAA', 'EQ:BBB', 'EQ:CCC'],
                            universe={'kind': 'dynamic', 'entries': {'EQ:AAA': early, 'EQ:BBB': late, 'EQ:CCC': late}})
                yield label + '_twin', entry, days, cfg3


def check_cadence(label, entry, days, cfg, market, handler, reuse_universe=False):
    """One observation per asset per business day - that day's close - and an empty window for a late entrant.

    Observed through the public interface only: a recording alpha model reads every signal value (every current
    member, lookbacks 1, 2 and 12) at every daily rebalance, i.e. right after that day's close was fed, and the
    values must be the definitions applied to exactly the closes since the asset's entry.  Momentum over one
    period pins each single observation (a missed, repeated or wrongly priced one changes it), the 12-period
    values pin the start of the window.  Buffer internals are NOT read: how observations are stored is the
    library's business."""
    cfg = dict(cfg, probe_signals=[1, 2, 12])
    uni = None
    if reuse_universe:
        # the universe object has already served a complete session (a re-run notebook cell, a parameter sweep):
        # signals built on it afterwards still start every late entrant with an empty window
        uni = sl.make_universe(cfg)
        sl.run_session(dict(cfg, probe_signals=None), handler, universe=uni)
    obs = sl.run_session(cfg, handler, universe=uni)
    if obs.error is not None:
        return [{'clause': 'C16.run_failed', 'detail': {'error': obs.error}}]
    fails = []
    closes = [rm.utc(d, 21, 0) for d in days]
    start = rm._parse(cfg['start'])
    ent = {'EQ:AAA': start - datetime.timedelta(days=5), 'EQ:BBB': entry}
    if label == 'static':
        ent['EQ:BBB'] = start - datetime.timedelta(days=5)
    if 'EQ:CCC' in cfg['assets']:
        ent['EQ:CCC'] = entry
    if obs.signals.warmup != len(closes):
        fails.append({'clause': 'C16.warmup', 'detail': {'warmup': obs.signals.warmup, 'closes': len(closes)}})
    kinds = {'mom': 'momentum', 'sma': 'sma', 'vol': 'vol'}
    seen = {}
    for dt, name, asset, n, v in (obs.probe or []):
        seen[(rm._parse(str(dt)), name, asset, n)] = v
    burn = rm._parse(cfg['burn_in']) if cfg.get('burn_in') else None
    for t in closes:
        if burn is not None and t < burn:
            continue          # no rebalance, hence no reading, before the burn-in; the closes still count as observations
        for asset in cfg['assets']:
            e = ent[asset]
            if e is None or t < e:
                continue
            want = [float(sl.price_at(market, asset[3:], u)) for u in closes if e <= u <= t]
            stream = [Fraction(repr(x)) for x in want]
            for name, kind in kinds.items():
                for n in (1, 2, 12):
                    got_v = seen.get((t, name, asset, n))
                    if got_v is None:
                        fails.append({'clause': 'C16.cadence', 'detail': {'signal': name, 'asset': asset, 'at': str(t),
                                                                          'observed': None, 'closes_since_entry': want}})
                        continue
                    if isinstance(got_v, str):
                        fails.append({'clause': 'C16.signal_error', 'detail': {'signal': name, 'asset': asset, 'lookback': n,
                                                                               'at': str(t), 'error': got_v}})
                        continue
                    want_v = definition(kind, stream, n)
                    if not close(got_v, want_v, 1e-7):
                        fails.append({'clause': 'C16.cadence', 'detail': {
                            'signal': name, 'asset': asset, 'lookback': n, 'at': str(t), 'impl': got_v, 'ref': want_v,
                            'closes_since_entry': want, 'entry': str(e)}})
            if fails:
                return fails[:3]
    return fails[:3]


def per_cadence(item):
    d = scratch_dir('qsc16-')
    viols, n = [], 0
    labels = set()
    try:
        market = sl.make_market(MARKET_DAYS, MARKET_SPEC)
        sl.write_market(d, market)
        handler, _ = sl.load_handler(d, market)
        # a second handler over the same source that was GIVEN a universe (of the traded asset only): prices of every
        # asset of the data source are still served, e.g. to signals kept on a non-traded indicator asset
        from qstrader.asset.universe.static import StaticUniverse
        from qstrader.data.backtest_data_handler import BacktestDataHandler
        handler_u = BacktestDataHandler(StaticUniverse(['EQ:AAA']), data_sources=list(handler.data_sources))
        runs = [(lab, e, dd, c, handler) for lab, e, dd, c in cadence_cfgs(item)]
        runs += [(lab + '_handler_universe', e, dd, c, handler_u) for lab, e, dd, c in cadence_cfgs(item)
                 if lab in ('static', 'before_start')]
        k = 0
        for lab, e, dd, c in cadence_cfgs(item):
            if c['universe']['kind'] == 'dynamic' and lab.startswith('day'):
                k += 1
                if k % 4 == 1:
                    runs.append((lab + '_universe_reused', e, dd, c, handler))
        for label, entry, days, cfg, hdl in runs:
            fails = check_cadence(label.replace('_handler_universe', '').replace('_universe_reused', ''), entry, days, cfg, market, hdl,
                                  reuse_universe=label.endswith('_universe_reused'))
            n += 1
            labels.add((label.split('_', 1)[-1] if label.startswith('day') else label).replace('_listed_first', '').replace('_handler_universe', '').replace('_universe_reused', ''))
            for f in fails:
                f['case'] = {'part': 'cadence', 'label': label, 'entry': None if entry is None else entry.isoformat(),
                             'days': [x.isoformat() for x in days], 'cfg': cfg}
                viols.append(f)
            if len(viols) > 6:
                break
    finally:
        mk.clear_caches()
        shutil.rmtree(d, ignore_errors=True)
    return {'viols': viols[:6], 'execs': n, 'evals': n, 'nontrivial': True, 'outcome': (item['start'], item['bdays']),
            'counters': {'cadence_sessions': n}, 'sets': {'entry_kinds': labels},
            'sample': dict(item, sessions=n)}


def run(tier, res, is_known):
    prices = ['1', '2', '3.5'] if tier == 'quick' else ['1', '2', '3.5', '0.01']
    lbsets = []
    pool = [1, 2, 3] if tier == 'quick' else [1, 2, 3, 5]
    for k in range(1, len(pool) + 1):
        lbsets += [list(c) for c in itertools.combinations(pool, k)]
    res.rule = ('part 1: explicit-state BFS to a FIXPOINT over append(asset, price) streams on the real Momentum/SMA/'
                'Volatility signals for every non-empty lookback subset (state = true trailing window U actual deque '
                'contents, so the verdict holds for streams of every length over the alphabet); single asset with the full '
                'price alphabet and two assets for non-interference; part 2: complete sessions with a real SignalsCollection '
                'over start alignments x lengths x universe-entry variants of a second asset; non-trivial = state whose '
                'windows are full')
    res.bounds = {'prices': prices, 'lookback_sets': lbsets}
    res.assumptions += ['buffer contents are read from AssetPriceBuffers.prices (the anchor state) only to build the canonical '
                        'key and for the cadence check; SMA is not queried on an empty window']
    fix = True
    for kind in CLASSES:
        for lbs in lbsets:
            spec = SignalSpec(kind, ['A'], lbs, prices)
            bfs(spec, 4 * (max(lbs) + 2), res, is_known, label='%s %s single asset' % (kind, lbs), recheck=10)
            fix = fix and res.parts[-1]['fixpoint']
            if any(not is_known(v) for v in res.violations):
                return
            if len(lbs) >= 2:
                # the same stream for an asset that was NOT known when the signal was created
                spec = SignalSpec(kind, ['A'], lbs, prices, known=[])
                bfs(spec, 4 * (max(lbs) + 2), res, is_known, label='%s %s late asset' % (kind, lbs), recheck=10)
                fix = fix and res.parts[-1]['fixpoint']
                if any(not is_known(v) for v in res.violations):
                    return
        two_prices = ['1', '2'] if tier == 'quick' else ['1', '2', '3.5']
        for lbs in ([1, 2], [3]) if tier == 'quick' else ([1, 2], [3], [1, 3]):
            # the second asset's name extends the first one's ('A' / 'AB'): buffers must still be kept apart
            spec = SignalSpec(kind, ['A', 'AB'], lbs, two_prices, known=['A'])
            bfs(spec, 4 * (max(lbs) + 2), res, is_known, label='%s %s two assets (B late)' % (kind, lbs), recheck=10)
            fix = fix and res.parts[-1]['fixpoint']
            if any(not is_known(v) for v in res.violations):
                return
    res.extra['all_searches_reached_fixpoint'] = fix
    if not fix:
        res.cap('a signal search did not reach its fixpoint within the depth bound')
    product(wide_stream, [(k, lbs) for k in ('momentum', 'sma', 'vol') for lbs in ((3, 5), (1, 12))], res, is_known,
            label='40 assets on one signal object', chunk=1)
    if any(not is_known(v) for v in res.violations):
        return
    product(per_cadence, cadence_items(tier), res, is_known, label='cadence sessions', chunk=1)
    res.extra['entry_kinds'] = sorted(res.extra.get('entry_kinds', set()))


def replay(case):
    if case['part'] == 'wide_stream':
        return wide_stream((case['kind'], tuple(case['lookbacks'])))['viols']
    if case['part'] == 'definitions':
        spec = SignalSpec(case['kind'], case['assets'], case['lookbacks'], [], known=case.get('known'))
        return spec.evaluate(tuple(tuple(e) for e in case['history']))[1]
    d = scratch_dir('qsc16r-')
    try:
        market = sl.make_market(MARKET_DAYS, MARKET_SPEC)
        sl.write_market(d, market)
        handler, _ = sl.load_handler(d, market)
        entry = None if case['entry'] is None else rm._parse(case['entry'])
        days = [datetime.date.fromisoformat(x) for x in case['days']]
        return check_cadence(case['label'].replace('_handler_universe', '').replace('_universe_reused', ''), entry, days,
                             case['cfg'], market, handler, reuse_universe=case['label'].endswith('_universe_reused'))
    finally:
        mk.clear_caches()
        shutil.rmtree(d, ignore_errors=True)
