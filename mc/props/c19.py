"""C19 - Assets trade only while they belong to the universe."""
import datetime
import itertools
import math
import shutil

import pandas as pd

from .. import market as mk
from .. import refmodel as rm
from .. import sessionlab as sl
from ..brokermachine import close
from ..core import product
from ..env import scratch_dir
from .c08 import MARKET_DAYS, BASES

T0 = pd.Timestamp('2020-03-03 21:00:00', tz='UTC')
ENTRY_CHOICES = [None, T0 - pd.Timedelta(days=1), T0, T0 + pd.Timedelta(minutes=1), T0 + pd.Timedelta(days=1),
                 T0 + pd.Timedelta(days=4000)]
QUERIES = [T0 - pd.Timedelta(days=2), T0 - pd.Timedelta(minutes=1), T0, T0 + pd.Timedelta(minutes=1),
           T0 + pd.Timedelta(days=1), T0 + pd.Timedelta(days=1, minutes=1), T0 + pd.Timedelta(days=5000)]
NAMES = ['EQ:AAA', 'EQ:BBB', 'EQ:CCC']


# ------------------------------------------------------------------ 1. membership grid
def membership(item):
    from qstrader.asset.universe.dynamic import DynamicUniverse
    from qstrader.asset.universe.static import StaticUniverse
    viols = []
    zone, entries = item if (len(item) == 2 and isinstance(item[0], str)) else ('UTC', item)
    # the same instants written in another time zone are the same entry times
    entries = tuple(None if e is None else e.tz_convert(zone) for e in entries)
    emap = dict(zip(NAMES, entries))
    case = {'kind': 'membership', 'zone': zone, 'entries': [None if e is None else str(e) for e in entries]}
    # every ordered pair of query instants on ONE universe object (membership is a function of dt alone,
    # whatever was asked before), plus the ascending sweep on one object
    plans = [[q] for q in QUERIES] + [list(QUERIES)] + [[q1, q2] for q1 in QUERIES for q2 in QUERIES if q1 != q2]
    for plan in plans:
        uni = DynamicUniverse(dict(emap))
        bad = False
        for q in plan:
            try:
                got = list(uni.get_assets(q))
            except Exception as e:  # noqa
                viols.append({'clause': 'C19.membership_error', 'detail': {'error': repr(e), 'dt': str(q)}, 'case': case})
                bad = True
                break
            want = [a for a in NAMES if emap[a] is not None and emap[a] <= q]
            if sorted(got) != sorted(want) or len(set(got)) != len(got):
                viols.append({'clause': 'C19.membership', 'detail': {'dt': str(q), 'got': got, 'want': want,
                                                                     'entries': case['entries'],
                                                                     'queried_before': [str(x) for x in plan[:plan.index(q)]]},
                              'case': case})
                bad = True
                break
        if bad:
            break
    # the same entry choices cycled over universes of many assets (size-dependent code paths)
    for size in (10, 24, 25, 64):
        names = ['EQ:X%03d' % i for i in range(size)]
        big = {n_: entries[i % 3] for i, n_ in enumerate(names)}
        uni = DynamicUniverse(dict(big))
        for q in (QUERIES[1], QUERIES[2], QUERIES[4]):
            got = list(uni.get_assets(q))
            want = [n_ for n_ in names if big[n_] is not None and big[n_] <= q]
            if sorted(got) != sorted(want) or len(set(got)) != len(got):
                viols.append({'clause': 'C19.membership', 'detail': {'dt': str(q), 'universe_size': size,
                                                                     'unexpected': sorted(set(got) - set(want))[:5],
                                                                     'missing': sorted(set(want) - set(got))[:5],
                                                                     'entries': case['entries']}, 'case': case})
                break
        if viols:
            break
    present = [a for a, e in emap.items() if e is not None]
    st = StaticUniverse(list(present))
    for q in QUERIES:
        if list(st.get_assets(q)) != present:
            viols.append({'clause': 'C19.static_universe', 'detail': {'dt': str(q), 'got': list(st.get_assets(q)),
                                                                      'want': present}, 'case': case})
            break
    nq = sum(len(pl) for pl in plans) + len(QUERIES)
    return {'viols': viols, 'execs': nq, 'evals': nq,
            'nontrivial': any(e is not None for e in entries), 'outcome': (zone, tuple(case['entries']))}


# ------------------------------------------------------------------ 2. optimisers grid
WVALS = [-1.0, 0.0, 0.3, 1.0, 2.0]
WODD = [float('nan'), None]      # a forecast that does not exist yet: still one of the assets the optimiser is given


def optimisers(item):
    from qstrader.portcon.optimiser.fixed_weight import FixedWeightPortfolioOptimiser
    from qstrader.portcon.optimiser.equal_weight import EqualWeightPortfolioOptimiser
    keys, vals = item
    w = dict(zip(keys, vals))
    case = {'kind': 'optimiser', 'weights': w}
    viols = []
    def same(a, b):
        return a is b or a == b or (isinstance(a, float) and isinstance(b, float) and a != a and b != b)
    try:
        got = FixedWeightPortfolioOptimiser()(T0, initial_weights=dict(w))
    except Exception as e:  # noqa
        got = None
        viols.append({'clause': 'C19.fixed_weight_optimiser', 'detail': {'error': repr(e), 'want': w}, 'case': case})
    if got is not None and (set(got.keys()) != set(w.keys()) or not all(same(got[k], w[k]) for k in w)):
        viols.append({'clause': 'C19.fixed_weight_optimiser', 'detail': {'got': dict(got), 'want': w}, 'case': case})
    for scale in (0.5, 1.0, 2.0):
        try:
            got = EqualWeightPortfolioOptimiser(scale=scale)(T0, initial_weights=dict(w))
        except Exception as e:  # noqa
            viols.append({'clause': 'C19.equal_weight_optimiser', 'detail': {'error': repr(e), 'scale': scale, 'input': w},
                          'case': case})
            break
        vals2 = list(got.values())
        ok = (set(got.keys()) == set(w.keys()) and all(close(v, vals2[0]) for v in vals2) and close(sum(vals2), scale))
        if not ok:
            viols.append({'clause': 'C19.equal_weight_optimiser', 'detail': {'got': dict(got), 'scale': scale, 'input': w},
                          'case': case})
            break
    return {'viols': viols, 'execs': 4, 'evals': 4, 'nontrivial': True, 'outcome': (keys, vals)}


# ------------------------------------------------------------------ 3. sessions
MARKET_SPEC = {'AAA': ('rising', BASES['AAA']), 'BBB': ('zigzag', BASES['BBB']), 'CCC': ('falling', BASES['CCC'])}
SCHEDS = [('daily', None), ('weekly', 'WED'), ('weekly', 'FRI'), ('end_of_month', None)]


def session_items(tier):
    starts = [datetime.date(2020, 2, 24)] if tier == 'quick' else [datetime.date(2020, 2, 24), datetime.date(2020, 2, 26),
                                                                  datetime.date(2020, 2, 29)]
    out = []
    for d0 in starts:
        for kind, wd in SCHEDS:
            for long_only in (True, False):
                out.append({'start': d0.isoformat(), 'kind': kind, 'weekday': wd, 'long_only': long_only, 'tier': tier})
    return out


def entries_for(item):
    start = rm._parse('%sT00:00:00+00:00' % item['start'])
    end_date = datetime.date.fromisoformat(item['start']) + datetime.timedelta(days=11)
    end = rm.utc(end_date, 23, 59)
    sched = rm.schedule(item['kind'], start, end, item['weekday'])
    ent = [('before_start', start - datetime.timedelta(days=1)), ('after_end', end + datetime.timedelta(days=2)),
           ('never', None), ('at_start', start)]
    for i, r in enumerate(sched):
        ent.append(('on_rebalance_%d' % i, r))
        ent.append(('minute_after_rebalance_%d' % i, r + datetime.timedelta(minutes=1)))
        ent.append(('minute_before_rebalance_%d' % i, r - datetime.timedelta(minutes=1)))
    if len(sched) >= 2:
        ent.append(('between', sched[0] + (sched[1] - sched[0]) / 2))
    return start, end, sched, ent


def check_session(item, label, entry, market, handler, prequery=False):
    start, end, sched, _ = entries_for(item)
    entries = {'EQ:AAA': (start - datetime.timedelta(days=3)).isoformat(),
               'EQ:BBB': None if entry is None else entry.isoformat(), 'EQ:CCC': None}
    cfg = {'start': start.isoformat(), 'end': end.isoformat(), 'burn_in': None, 'assets': NAMES,
           'universe': {'kind': 'dynamic', 'entries': entries}, 'alpha': {'kind': 'single', 'signal': 1.0},
           'rebalance': item['kind'], 'weekday': item['weekday'], 'long_only': item['long_only'],
           'fee': ['pct', '0.001', '0'], 'cash': 10007.31}
    if item['long_only']:
        cfg['buffer'] = 0.05
    else:
        cfg['leverage'] = 1.0
    case = {'kind': 'session', 'item': item, 'label': label, 'entry': None if entry is None else entry.isoformat(),
            'prequery': prequery}
    universe = sl.make_universe(cfg)
    if prequery == 'session':
        # the universe object has already served a complete session that used signals (a strategy run before its
        # equal-weight benchmark): who is a member when is still decided by the entry dates alone
        sl.run_session(dict(cfg, signals={'lookbacks': [2]}), handler, universe=universe)
    elif prequery:
        # the universe object has been consulted before the session (e.g. by the user, or by an earlier run)
        universe.get_assets(pd.Timestamp(end + datetime.timedelta(days=30)))
        universe.get_assets(pd.Timestamp(start - datetime.timedelta(days=30)))
    obs = sl.run_session(cfg, handler, universe=universe)
    fails = []
    if obs.error is not None:
        return [{'clause': 'C19.run_failed', 'detail': {'error': obs.error}, 'case': case}], 0
    ent = {'EQ:AAA': start - datetime.timedelta(days=3), 'EQ:BBB': entry, 'EQ:CCC': None}
    clock = set(t for t, _ in rm.clock_events(start.date(), end.date()))
    rebs = [r for r in sched if r in clock]
    if [rm.to_py(a['Date']) for a in obs.allocs] != rebs:
        return [{'clause': 'C19.rebalance_instants', 'detail': {'observed': [str(a['Date']) for a in obs.allocs],
                                                                'expected': [str(r) for r in rebs]}, 'case': case}], 0
    for a in obs.allocs:
        r = rm.to_py(a['Date'])
        keys = set(k for k in a if k != 'Date')
        want = set(x for x, e in ent.items() if e is not None and e <= r)
        if keys != want:
            fails.append({'clause': 'C19.target_weight_membership',
                          'detail': {'rebalance': str(r), 'assets_with_weight': sorted(keys), 'members': sorted(want),
                                     'entry_B': case['entry']}, 'case': case})
            break
        if any(not close(a[k], 1.0) for k in keys):
            fails.append({'clause': 'C19.target_weight_value', 'detail': {'rebalance': str(r), 'alloc': {k: a[k] for k in keys}},
                          'case': case})
            break
    for f in obs.fills:
        e = ent.get(f[1])
        first = [r for r in rebs if e is not None and r >= e]
        if e is None or not first or rm.to_py(f[0]) <= first[0]:
            fails.append({'clause': 'C19.traded_outside_universe', 'detail': {'fill': str(f[:3]), 'entry': str(e)},
                          'case': case})
            break
    for asset, q in obs.holdings.items():
        e = ent.get(asset)
        if e is None or not [r for r in rebs if r >= e]:
            fails.append({'clause': 'C19.position_outside_universe', 'detail': {'asset': asset, 'quantity': q, 'entry': str(e)},
                          'case': case})
    n_b = sum(1 for f in obs.fills if f[1] == 'EQ:BBB')
    return fails, n_b


def static_with_signals(item):
    """StaticUniverse + a SignalsCollection + an asset whose data start after the session does (burn-in until then):
    afterwards the universe still yields exactly its configured list, and every member got a target weight"""
    from qstrader.asset.universe.static import StaticUniverse
    d = scratch_dir('qsc19s-')
    viols = []
    case = {'kind': 'static_signals', 'item': item}
    try:
        days = MARKET_DAYS
        market = sl.make_market(days, {'AAA': ('rising', BASES['AAA']), 'BBB': ('zigzag', BASES['BBB'], item['late'])})
        sl.write_market(d, market)
        handler, _ = sl.load_handler(d, market)
        start = rm.utc(days[2], 14, 30)
        end = rm.utc(days[12], 23, 59)
        burn = rm.utc(days[item['late']], 0, 0)
        names = ['EQ:AAA', 'EQ:BBB']
        cfg = {'start': start.isoformat(), 'end': end.isoformat(), 'burn_in': burn.isoformat(), 'assets': names,
               'universe': {'kind': 'static'}, 'alpha': {'kind': 'fixed', 'weights': {'EQ:AAA': 0.5, 'EQ:BBB': 0.5}},
               'rebalance': 'daily', 'weekday': None, 'long_only': item['long_only'], 'fee': ['zero'], 'cash': 10007.31,
               'signals': {'lookbacks': [3]}}
        cfg['buffer' if item['long_only'] else 'leverage'] = 0.05 if item['long_only'] else 1.0
        uni = StaticUniverse(list(names))
        obs = sl.run_session(cfg, handler, universe=uni)
        if obs.error is not None:
            viols.append({'clause': 'C19.run_failed', 'detail': {'error': obs.error}, 'case': case})
        for q in QUERIES[:3] + [pd.Timestamp(end)]:
            if list(uni.get_assets(q)) != names:
                viols.append({'clause': 'C19.static_universe', 'case': case,
                              'detail': {'after': 'a session with signals and a late-starting asset', 'dt': str(q),
                                         'got': list(uni.get_assets(q)), 'want': names}})
                break
        for a in obs.allocs:
            if set(k for k in a if k != 'Date') != set(names):
                viols.append({'clause': 'C19.target_weight_membership', 'case': case,
                              'detail': {'rebalance': str(a['Date']), 'assets_with_weight': sorted(k for k in a if k != 'Date'),
                                         'members': names}})
                break
    finally:
        mk.clear_caches()
        shutil.rmtree(d, ignore_errors=True)
    return {'viols': viols[:3], 'execs': 1, 'evals': 1, 'nontrivial': True, 'outcome': ('static_signals', item['late'], item['long_only'])}


def per_session_item(item):
    d = scratch_dir('qsc19-')
    viols, n, nb = [], 0, 0
    labels = set()
    try:
        market = sl.make_market(MARKET_DAYS, MARKET_SPEC)
        sl.write_market(d, market)
        handler, _ = sl.load_handler(d, market)
        for label, entry in entries_for(item)[3]:
            fails, b = check_session(item, label, entry, market, handler)
            n += 1
            if not fails:
                fails, _ = check_session(item, label, entry, market, handler, prequery=True)
                n += 1
            if not fails and n % 3 == 0:
                fails, _ = check_session(item, label, entry, market, handler, prequery='session')
                n += 1
            nb += 1 if b else 0
            labels.add((item['kind'], item['weekday'], label.rstrip('0123456789'), bool(b)))
            viols += fails
            if len(viols) > 6:
                break
    finally:
        mk.clear_caches()
        shutil.rmtree(d, ignore_errors=True)
    return {'viols': viols[:6], 'execs': n, 'evals': n, 'nontrivial': nb > 0, 'outcome': tuple(sorted(item.items(), key=str)),
            'counters': {'sessions': n, 'sessions_where_late_asset_traded': nb}, 'sets': {'entry_kinds': labels},
            'sample': dict(item, sessions=n, late_asset_traded_in=nb)}


def run(tier, res, is_known):
    res.rule = ('(1) every entry map over 3 assets with entries from {None, t0-1d, t0, t0+1min, t0+1d, far future} x 7 query '
                'instants around t0 on the real DynamicUniverse/StaticUniverse; (2) every weight dictionary over <= 3 assets with '
                'values {-1,0,.3,1,2} through both optimisers; (3) full product schedule x sizing x entry of asset B (before start, '
                'at start, on / one minute before / one minute after every rebalance instant, between, after end, never) as '
                'complete real sessions with SingleSignalAlphaModel + DynamicUniverse; non-trivial (3) = session in which the '
                'late asset traded')
    res.assumptions += ['order of the list returned by a dynamic universe is not compared (the statement does not fix it)']
    product(membership, [(z, e) for z in ('UTC', 'America/New_York', 'Asia/Tokyo')
                         for e in itertools.product(ENTRY_CHOICES, repeat=3)], res, is_known, label='membership grid')
    opt_items = []
    for n in (1, 2, 3):
        for keys in itertools.combinations(NAMES, n):
            for vals in itertools.product(WVALS, repeat=n):
                opt_items.append((keys, vals))
    # weights that are NaN or None (no forecast yet) are weights of assets the optimiser was given all the same
    for n in (1, 2, 3):
        for keys in itertools.combinations(NAMES, n):
            for pos in range(n):
                for odd in WODD:
                    for other in (0.3, 1.0):
                        vals = tuple(odd if i == pos else other for i in range(n))
                        opt_items.append((keys, vals))
    product(optimisers, opt_items, res, is_known, label='optimiser grid')
    product(per_session_item, session_items(tier), res, is_known, label='sessions', chunk=1)
    product(static_with_signals, [{'late': k, 'long_only': lo} for k in (4, 6) for lo in (True, False)], res, is_known,
            label='static universe with signals and late data', chunk=1)
    kinds = res.extra.pop('entry_kinds', set())
    res.extra['entry_kinds_covered'] = sorted(set(k[2] for k in kinds))


def replay(case):
    if case['kind'] == 'membership':
        ent = [None if e is None else pd.Timestamp(e).tz_convert('UTC') for e in case['entries']]
        return membership((case.get('zone', 'UTC'), tuple(ent)))['viols']
    if case['kind'] == 'optimiser':
        w = case['weights']
        return optimisers((tuple(w.keys()), tuple(w.values())))['viols']
    if case['kind'] == 'static_signals':
        return static_with_signals(case['item'])['viols']
    d = scratch_dir('qsc19r-')
    try:
        market = sl.make_market(MARKET_DAYS, MARKET_SPEC)
        sl.write_market(d, market)
        handler, _ = sl.load_handler(d, market)
        entry = None if case['entry'] is None else rm._parse(case['entry'])
        return check_session(case['item'], case['label'], entry, market, handler, case.get('prequery', False))[0]
    finally:
        mk.clear_caches()
        shutil.rmtree(d, ignore_errors=True)
