"""C14 - A session trades only at scheduled rebalances after burn-in; equity is daily."""
import datetime
import itertools
import math
import shutil
from fractions import Fraction

import pandas as pd

from .. import market as mk
from .. import refmodel as rm
from .. import sessionlab as sl
from ..brokermachine import close
from ..core import product
from ..env import scratch_dir
from .c08 import BASES, SCHEDULES

MARKET_DAYS = rm.bdays(datetime.date(2020, 2, 20), datetime.date(2020, 6, 12))

FIRST = datetime.date(2020, 2, 24)
ASSETS = ['EQ:AAA', 'EQ:BBB']
WEIGHTS = {'EQ:AAA': 0.6, 'EQ:BBB': 0.4}
MARKET_SPEC = {'AAA': ('zigzag', BASES['AAA']), 'BBB': ('rising', BASES['BBB'])}
CASH = 10007.31


def market_days(start_iso, end_iso):
    """the synthetic market covers the session: the standing 2020 window, or the days around a session elsewhere in time"""
    d0, d1 = datetime.date.fromisoformat(start_iso[:10]), datetime.date.fromisoformat(end_iso[:10])
    if MARKET_DAYS[0] <= d0 and d1 <= MARKET_DAYS[-1]:
        return MARKET_DAYS
    return rm.bdays(d0 - datetime.timedelta(days=6), d1 + datetime.timedelta(days=6))


def iso(d, hm):
    return '%sT%s:00+00:00' % (d.isoformat(), hm)


def items(tier):
    lengths = [0, 1, 4, 8] if tier == 'quick' else list(range(0, 13))
    btimes = ['14:30', '21:00', '21:01'] if tier == 'quick' else ['00:00', '14:30', '21:00', '21:01']
    modes = [True] if tier == 'quick' else [True, False]
    out = []
    for off in range(7):
        d0 = FIRST + datetime.timedelta(days=off)
        for st in ('00:00', '14:30'):
            for n in lengths:
                out.append({'start': iso(d0, st), 'end': iso(d0 + datetime.timedelta(days=n), '23:59'),
                            'btimes': btimes, 'modes': modes})
    for off in (0, 3):
        d0 = FIRST + datetime.timedelta(days=off)
        out.append({'start': iso(d0, '14:30'), 'end': iso(d0 + datetime.timedelta(days=70), '23:59'), 'btimes': btimes,
                    'modes': modes, 'long': True})
    # sessions elsewhere in time: one that straddles the day the check runs, one wholly after it, one far ahead and
    # one long ago - what a session does must not depend on the wall clock
    today = datetime.date.today()
    for d0 in (today - datetime.timedelta(days=9), today + datetime.timedelta(days=3), datetime.date(2090, 2, 27),
               datetime.date(1975, 2, 27)):
        out.append({'start': iso(d0, '14:30'), 'end': iso(d0 + datetime.timedelta(days=17), '23:59'), 'btimes': ['14:30'],
                    'modes': [True], 'elsewhere': True})
    return out


def burn_ins(item):
    d0 = datetime.date.fromisoformat(item['start'][:10])
    d1 = datetime.date.fromisoformat(item['end'][:10])
    out = [None, iso(d0 - datetime.timedelta(days=1), '14:30')]
    for d in rm.daterange(d0, d1):
        for t in item['btimes']:
            out.append(iso(d, t))
    return out


def session_cfgs(item):
    for burn in burn_ins(item):
        for kind, wd in SCHEDULES:
            if kind == 'buy_and_hold' and not item['start'][11:16] == '14:30':
                continue
            for long_only in item['modes']:
                cfg = {'start': item['start'], 'end': item['end'], 'burn_in': burn, 'assets': ASSETS,
                       'universe': {'kind': 'static'}, 'alpha': {'kind': 'fixed', 'weights': WEIGHTS},
                       'rebalance': kind, 'weekday': wd, 'long_only': long_only, 'fee': ['pct', '0.001', '0.0005'],
                       'cash': CASH}
                if long_only:
                    cfg['buffer'] = 0.05
                else:
                    cfg['leverage'] = 1.5
                    cfg['alpha'] = {'kind': 'fixed', 'weights': {'EQ:AAA': 0.6, 'EQ:BBB': -0.4}}
                yield cfg
    # the same sessions when a SignalsCollection (look-back 3 and 5) is handed to the session: signals do not decide
    # when portfolio construction runs
    for burn in burn_ins(item)[:2]:
        for kind, wd in (('daily', None), ('weekly', 'WED'), ('end_of_month', None)):
            yield {'start': item['start'], 'end': item['end'], 'burn_in': burn, 'assets': ASSETS, 'universe': {'kind': 'static'},
                   'alpha': {'kind': 'fixed', 'weights': WEIGHTS}, 'rebalance': kind, 'weekday': wd, 'long_only': True,
                   'buffer': 0.05, 'fee': ['pct', '0.001', '0.0005'], 'cash': CASH, 'signals': {'lookbacks': [3, 5]}}


def long_cfgs(item):
    """70 calendar days: one rebalance followed by many weeks without one (tables must carry it forward)"""
    for burn in (None, iso(datetime.date.fromisoformat(item['start'][:10]) + datetime.timedelta(days=9), '14:30')):
        for kind, wd in (('buy_and_hold', None), ('end_of_month', None), ('weekly', 'FRI')):
            cfg = {'start': item['start'], 'end': item['end'], 'burn_in': burn, 'assets': ASSETS,
                   'universe': {'kind': 'static'}, 'alpha': {'kind': 'fixed', 'weights': WEIGHTS},
                   'rebalance': kind, 'weekday': wd, 'long_only': True, 'buffer': 0.05,
                   'fee': ['pct', '0.001', '0.0005'], 'cash': CASH}
            yield cfg


def as_date(x):
    """the calendar day an index entry denotes (datetime.date, datetime, Timestamp, tz-aware or not)"""
    if hasattr(x, 'hour'):
        return x.date()
    return x


def check(cfg, market, handler):
    obs = sl.run_session(cfg, handler)
    fails = []
    if obs.error is not None:
        return [{'clause': 'C14.run_failed', 'detail': {'error': obs.error}}], 0
    start, end = rm._parse(cfg['start']), rm._parse(cfg['end'])
    burn = rm._parse(cfg['burn_in']) if cfg['burn_in'] else None
    clock = [t for t, _ in rm.clock_events(start.date(), end.date())]
    sched = rm.schedule(cfg['rebalance'], start, end, cfg.get('weekday'))
    expected = [t for t in clock if t in set(sched) and (burn is None or t >= burn)]
    observed = [rm.to_py(a['Date']) for a in obs.allocs]
    if observed != expected:
        fails.append({'clause': 'C14.construction_instants', 'detail': {'observed': [str(t) for t in observed][:8],
                                                                        'expected': [str(t) for t in expected][:8]}})
    opens = set(t for t in clock if t.hour == 14)
    for f in obs.fills:
        t = rm.to_py(f[0])
        if t not in opens:
            fails.append({'clause': 'C14.fill_not_at_market_open', 'detail': {'fill': str(f[:3])}})
            break
        if not expected or t < expected[0]:
            fails.append({'clause': 'C14.fill_before_first_rebalance', 'detail': {'fill': str(f[:3]),
                                                                                 'first_rebalance': str(expected[:1])}})
            break
    # equity: one point per business day whose close lies in [max(start, burn-in), end]
    lo = start if burn is None else max(start, burn)
    want_days = [t for t in clock if t.hour == 21 and lo <= t <= end]
    got_days = [rm.to_py(t) for t, _ in obs.equity]
    if got_days != want_days:
        fails.append({'clause': 'C14.equity_dates', 'detail': {'observed': [str(t) for t in got_days][:10],
                                                               'expected': [str(t) for t in want_days][:10]}})
    else:
        # value = cash + holdings x that day's close, replaying the recorded fills
        for (ts, v) in obs.equity:
            t = rm.to_py(ts)
            cash = Fraction(str(CASH))
            held = {}
            for f in obs.fills:
                if rm.to_py(f[0]) <= t:
                    cash -= Fraction(float(f[3])) * int(f[2]) + Fraction(float(f[4]))
                    held[f[1]] = held.get(f[1], 0) + int(f[2])
            val = cash + sum(q * sl.price_at(market, a.replace('EQ:', ''), t) for a, q in held.items())
            if not close(v, val):
                fails.append({'clause': 'C14.equity_value', 'detail': {'date': str(t), 'impl': v, 'ref': float(val)}})
                break
    # the tables the user sees
    if obs.equity and not fails:
        try:
            eq = obs.session.get_equity_curve()
            idx = [as_date(i) for i in eq.index]
            if idx != [t.date() for t in want_days] or not all(a == b for a, (_, b) in zip(eq['Equity'].tolist(), obs.equity)):
                fails.append({'clause': 'C14.equity_table', 'detail': {'index': [str(i) for i in idx][:10]}})
        except Exception as e:  # noqa
            fails.append({'clause': 'C14.equity_table', 'detail': {'error': repr(e)}})
    if obs.equity and not fails:
        # whatever the caller does to a table he was given must not change what the session reports next
        try:
            eq1 = obs.session.get_equity_curve()
            snap = (list(eq1.index), eq1['Equity'].tolist())
            eq1.drop(eq1.index[:1], inplace=True)
            eq1['Equity'] = 1.0
            eq2 = obs.session.get_equity_curve()
            if (list(eq2.index), eq2['Equity'].tolist()) != snap:
                fails.append({'clause': 'C14.equity_table', 'detail': {'after_caller_modified_previous_result': True,
                                                                     'rows_before': len(snap[0]), 'rows_after': len(eq2)}})
            if expected:
                a1 = obs.session.get_target_allocations()
                snap_a = (list(a1.index), a1.fillna(-1.0).values.tolist())
                a1.drop(a1.index[:1], inplace=True)
                a2 = obs.session.get_target_allocations()
                if (list(a2.index), a2.fillna(-1.0).values.tolist()) != snap_a:
                    fails.append({'clause': 'C14.allocation_table_dates',
                                  'detail': {'after_caller_modified_previous_result': True, 'rows_before': len(snap_a[0]),
                                             'rows_after': len(a2)}})
        except Exception as e:  # noqa
            fails.append({'clause': 'C14.equity_table', 'detail': {'error': repr(e), 'on': 'second query'}})
    if expected and obs.equity and not fails:
        try:
            tab = obs.session.get_target_allocations()
        except Exception as e:  # noqa
            fails.append({'clause': 'C14.allocation_table', 'detail': {'error': repr(e)}})
            tab = None
        if tab is not None:
            want_idx = [t.date() for t in want_days if burn is None or t.date() >= burn.date()]
            if [as_date(i) for i in tab.index] != want_idx:
                fails.append({'clause': 'C14.allocation_table_dates', 'detail': {'observed': [str(i) for i in tab.index][:10],
                                                                                 'expected': [str(i) for i in want_idx][:10]}})
            else:
                for k, d in enumerate(want_idx):
                    latest = [a for a in obs.allocs if rm.to_py(a['Date']).date() <= d]
                    row = tab.iloc[k]
                    for asset in ASSETS:
                        got = row.get(asset, math.nan)
                        if not latest or asset not in latest[-1]:
                            # no rebalance yet, or the latest one gave this asset no weight at all: the statement does
                            # not say how "nothing" is written - NaN, 0.0 or a missing column all say it
                            ok = (got != got) or got == 0.0
                        else:
                            ok = close(got, latest[-1][asset])
                        if not ok:
                            fails.append({'clause': 'C14.allocation_table_values',
                                          'detail': {'date': str(d), 'asset': asset, 'observed': float(got),
                                                     'expected': None if not latest else latest[-1].get(asset)}})
                            break
                    if fails:
                        break
    return fails, len(expected)


def per_item(item):
    d = scratch_dir('qsc14-')
    viols, n, nontriv, boundary = [], 0, 0, 0
    shapes = set()
    try:
        market = sl.make_market(market_days(item['start'], item['end']), MARKET_SPEC)
        sl.write_market(d, market)
        handler, _ = sl.load_handler(d, market)
        cfgs = list(session_cfgs(item))
        if item.get('long'):
            cfgs = list(long_cfgs(item))
        if item.get('elsewhere'):
            cfgs = [c for c in cfgs if c['burn_in'] is None or c['burn_in'][:10] == (
                datetime.date.fromisoformat(item['start'][:10]) + datetime.timedelta(days=7)).isoformat()]
        # ... and, after all of them, the sessions without burn-in once more: a session must not depend on the
        # sessions (with other burn-ins, same dates and schedule) that ran before it in the process
        cfgs += [c for c in cfgs if c['burn_in'] is None]
        for cfg in cfgs:
            fails, nreb = check(cfg, market, handler)
            n += 1
            if nreb:
                nontriv += 1
            shapes.add((cfg['rebalance'], cfg['weekday'], item['start'], item['end'][:10], nreb, cfg['burn_in'] is not None))
            for f in fails:
                f['case'] = {'cfg': cfg}
                viols.append(f)
            if len(viols) > 8:
                break
    finally:
        mk.clear_caches()
        shutil.rmtree(d, ignore_errors=True)
    return {'viols': viols[:8], 'execs': n, 'evals': n, 'nontrivial': nontriv > 0, 'outcome': (item['start'], item['end']),
            'counters': {'sessions': n, 'sessions_with_rebalance': nontriv}, 'sets': {'shapes': shapes},
            'sample': {'start': item['start'], 'end': item['end'], 'sessions': n, 'with_rebalance': nontriv}}


def run(tier, res, is_known):
    its = items(tier)
    res.rule = ('full product start (7 consecutive days x {00:00, 14:30}) x length x burn-in (none, before start, every day of '
                'the range x boundary times incl. 21:00 / 21:01) x 8 rebalance kinds (buy-and-hold with 14:30 starts): complete '
                'real sessions; construction instants, fill instants, equity dates/values and both user tables compared with '
                'the calendar reference and a ledger replay of the recorded fills; non-trivial = session with >= 1 rebalance; '
                'distinct = (schedule, start, end, #rebalances, burn-in given) shapes')
    res.bounds = {'ranges': len(its)}
    res.assumptions += ['get_equity_curve()/get_target_allocations() are only consulted when the curve is non-empty and at least '
                        'one rebalance happened (as the quantifier says)']
    product(per_item, its, res, is_known, label='sessions', chunk=1)
    res.states = res.extra.get('sessions', 0)
    res.transitions = res.states
    shapes = res.extra.pop('shapes', set())
    res.nontrivial = set(s for s in shapes if s[4] > 0)
    res.outcomes = set(shapes)


def replay(case):
    d = scratch_dir('qsc14r-')
    try:
        market = sl.make_market(market_days(case['cfg']['start'], case['cfg']['end']), MARKET_SPEC)
        sl.write_market(d, market)
        handler, _ = sl.load_handler(d, market)
        return check(case['cfg'], market, handler)[0]
    finally:
        mk.clear_caches()
        shutil.rmtree(d, ignore_errors=True)
