"""C09 - Rebalancing trades the portfolio exactly onto its target (RebalanceMachine)."""
import itertools

import numpy as np
import pandas as pd

from ..brokermachine import close, make_fee
from ..core import bfs, digest

ASSETS = ['A', 'B', 'C', 'D']
TABLES = [
    {'A': 10.37, 'B': 24.9, 'C': 101.5, 'D': 0.33},
    {'A': 11.02, 'B': 23.55, 'C': 97.25, 'D': 0.36},
    {'A': 9.96, 'B': 25.4, 'C': 110.75, 'D': 0.29},
    {'A': 10.37002, 'B': 24.90005, 'C': 101.5002, 'D': 0.3300007},      # table 0 moved by ~2e-6
]
WIDE = ['W%02d' % i for i in range(40)]
for _k, _t in enumerate(TABLES):
    for _i, _a in enumerate(WIDE):
        _t[_a] = round((3.0 + 1.37 * _i) * (1 + 0.013 * _k * ((_i % 3) - 1)), 4)
CLOSES = [pd.Timestamp(t, tz='UTC') for t in ('2020-03-02 21:00', '2020-03-03 21:00', '2020-03-04 21:00', '2020-03-05 21:00')]
OPENS = [pd.Timestamp(t, tz='UTC') for t in ('2020-03-03 14:30', '2020-03-04 14:30', '2020-03-05 14:30', '2020-03-06 14:30')]
T0 = pd.Timestamp('2020-03-02 14:30', tz='UTC')
UNIVERSES = [tuple(c) for k in range(4) for c in itertools.combinations(['A', 'B', 'C'], k)]
PRESETS = {
    'empty': [],
    'long_AB': [('A', 100), ('B', 50)],
    'long_A_short_C': [('A', 100), ('C', -30)],
    'holds_D': [('D', 40), ('B', 20)],
    'penny': [('D', 1), ('A', 10)],      # one share of an asset quoted below 0.5: orders worth less than half a unit
    'wide': [],           # a universe of 40 assets, ten of them held at a time, rotating
    'large': [],          # 50,000,000 of funds: positions of millions of shares, adjustments of a few shares
}


class Stub(object):
    def __init__(self):
        self.table = 0
        self.universe = []
        self.alpha = {}

    def _p(self, a):
        return TABLES[self.table].get(a, np.nan)

    def get_asset_latest_bid_price(self, dt, a):
        return self._p(a)

    def get_asset_latest_ask_price(self, dt, a):
        return self._p(a)

    def get_asset_latest_bid_ask_price(self, dt, a):
        return (self._p(a), self._p(a))

    def get_asset_latest_mid_price(self, dt, a):
        return self._p(a)

    def get_assets(self, dt):
        return list(self.universe)

    def __call__(self, dt):
        return dict(self.alpha)


def alpha_dicts(values, max_keys, assets=ASSETS):
    out = []
    for combo in itertools.product([None] + list(values), repeat=len(assets)):
        d = {a: v for a, v in zip(assets, combo) if v is not None}
        if len(d) <= max_keys:
            out.append(d)
    return out


class Machine(object):
    def __init__(self, sizer_kind, fee, preset):
        # preset 'long_AB_npstr': the symbols are numpy strings (a str subclass), as np.unique(tickers) yields them
        self.nm = (lambda a: np.str_(a)) if preset.endswith('_npstr') else (lambda a: a)
        preset_key = preset.replace('_npstr', '')
        from qstrader.broker.simulated_broker import SimulatedBroker
        from qstrader.exchange.simulated_exchange import SimulatedExchange
        from qstrader.execution.order import Order
        from qstrader.portcon.pcm import PortfolioConstructionModel
        from qstrader.portcon.optimiser.fixed_weight import FixedWeightPortfolioOptimiser
        from qstrader.portcon.order_sizer.dollar_weighted import DollarWeightedCashBufferedOrderSizer
        from qstrader.portcon.order_sizer.long_short import LongShortLeveragedOrderSizer
        self.stub = Stub()
        funds = 50000000.0 if preset_key == 'large' else 100000.0
        self.broker = SimulatedBroker(T0, SimulatedExchange(T0), self.stub, initial_funds=funds, fee_model=make_fee(fee))
        self.broker.create_portfolio('p')
        self.broker.subscribe_funds_to_portfolio('p', funds)
        if sizer_kind == 'long_only':
            self.sizer = DollarWeightedCashBufferedOrderSizer(self.broker, 'p', self.stub, cash_buffer_percentage=0.05)
        else:
            self.sizer = LongShortLeveragedOrderSizer(self.broker, 'p', self.stub, gross_leverage=1.5)
        self.pcm = PortfolioConstructionModel(self.broker, 'p', self.stub, self.sizer, FixedWeightPortfolioOptimiser(),
                                              alpha_model=self.stub, data_handler=self.stub)
        self.stats = {'target_allocations': []}
        self.round = 0
        for a, q in PRESETS[preset_key]:
            self.broker.submit_order('p', Order(T0, self.nm(a), q))
        self.broker.update(T0)

    def held(self):
        return {a: int(r['quantity']) for a, r in self.broker.get_portfolio_as_dict('p').items()}

    def step(self, ev, check=True):
        """ev = (universe tuple, alpha items tuple, table)"""
        uni, alpha_items, table = ev[:3]
        hold = len(ev) > 3 and ev[3] == 'hold'      # the orders of this round stay queued: no open before the next round
        fails = []
        i = self.round
        dt, dt_open = CLOSES[i], OPENS[i]
        self.stub.table = table
        self.stub.universe = [self.nm(a) for a in uni]
        self.stub.alpha = {self.nm(a): w for a, w in alpha_items}
        self.broker.update(dt)
        held = self.held()
        queued_before = len(list(self.broker.open_orders['p'].queue))
        S = sorted(set(uni) | set(held) | set(self.stub.alpha))
        wv = {a: self.stub.alpha.get(a, 0.0) for a in S}
        try:
            target = {a: int(r['quantity']) for a, r in self.sizer(dt, dict(wv)).items()} if S else {}
        except Exception as e:  # noqa
            return [{'clause': 'C09.harness_sizer_error', 'detail': repr(e)}]
        try:
            orders = self.pcm(dt, stats=self.stats)
        except Exception as e:  # noqa
            return [{'clause': 'C09.construction_error', 'detail': {'error': repr(e), 'assets': S}}]
        want = [(a, target.get(a, 0) - held.get(a, 0)) for a in S if target.get(a, 0) - held.get(a, 0) != 0]
        got = [(o.asset, o.quantity) for o in orders]
        if check:
            if [(a, int(q)) for a, q in got] != want:
                fails.append({'clause': 'C09.orders', 'detail': {'got': got, 'want': want, 'held': held, 'target': target,
                                                                 'universe': list(uni), 'alpha': self.stub.alpha}})
            elif any(o.created_dt != dt for o in orders):
                fails.append({'clause': 'C09.order_timestamp', 'detail': {'created': [str(o.created_dt) for o in orders],
                                                                          'dt': str(dt)}})
            row = self.stats['target_allocations'][-1] if self.stats['target_allocations'] else None
            want_row = dict({'Date': dt}, **{a: float(wv[a]) for a in S})
            if row is None or set(row.keys()) != set(want_row.keys()) or row.get('Date') != dt or any(
                    not close(row[a], want_row[a]) for a in S):
                fails.append({'clause': 'C09.allocation_row', 'detail': {'got': {k: str(v) for k, v in (row or {}).items()},
                                                                         'want': {k: str(v) for k, v in want_row.items()}}})
        for o in orders:
            self.broker.submit_order('p', o)
            self.broker.update(dt)
        if not hold:
            self.broker.update(dt_open)
        after = self.held()
        want_after = {a: q for a, q in target.items() if q != 0}
        # (orders of an earlier round that were still queued fill together with this round's: the statement speaks of
        # "those orders", so holdings are compared only when nothing else was waiting and this round's orders filled)
        if check and not fails and not hold and not queued_before and after != want_after:
            fails.append({'clause': 'C09.holdings_after_fills', 'detail': {'holdings': after, 'target': want_after,
                                                                           'held_before': held}})
        self.round += 1
        self.last = {'orders': len(got), 'liquidated': sorted(set(held) - set(want_after)),
                     'relation': ('disjoint' if not (set(self.stub.alpha) & set(held)) else
                                  'subset' if set(self.stub.alpha) <= set(held) else
                                  'superset' if set(self.stub.alpha) >= set(held) else 'overlap')}
        return fails

    def canon(self):
        queued = tuple((o.asset, int(o.quantity)) for o in list(self.broker.open_orders['p'].queue))
        return digest((self.round, tuple(sorted(self.held().items())),
                       round(self.broker.get_portfolio_cash_balance('p'), 6), queued))


class Spec(object):
    def __init__(self, sizer_kind, fee, preset, menus):
        self.sizer_kind, self.fee, self.preset, self.menus = sizer_kind, tuple(fee), preset, menus

    def case(self, hist):
        return {'sizer': self.sizer_kind, 'fee': list(self.fee), 'preset': self.preset,
                'history': [[list(e[0]), [list(x) for x in e[1]], e[2]] + list(e[3:]) for e in hist]}

    def build(self, hist):
        m = Machine(self.sizer_kind, self.fee, self.preset)
        fails = []
        for i, ev in enumerate(hist):
            fails = m.step(ev, check=(i == len(hist) - 1))
        return m, fails

    def initial(self):
        return [()]

    def check_initial(self, hist):
        m, _ = self.build(hist)
        return m.canon(), [], {}

    def rebuild_key(self, hist):
        return self.build(hist)[0].canon()

    def expand(self, hist):
        outs = []
        for ev in self.menus[len(hist)]:
            m, fails = self.build(hist + (ev,))
            own = [dict(f, case=self.case(hist + (ev,))) for f in fails]
            key = None if fails else m.canon()
            tags = {'outcomes': [(m.last['relation'], bool(m.last['liquidated']), m.last['orders'] > 0)] if not fails else [],
                    'nontrivial': (not fails) and m.last['orders'] > 0}
            outs.append((ev, key, own, tags))
        return outs


def menus(sizer_kind, tier):
    vals = [0.0, 1.0, 2.0] if sizer_kind == 'long_only' else [0.0, 1.0, -1.0]
    full = [(u, tuple(sorted(d.items())), t) for u in UNIVERSES for d in alpha_dicts(vals, 3) for t in range(3)]
    small_alpha = alpha_dicts(vals[1:], 2, assets=['A', 'B', 'D']) + [{'A': 0.0}, {'C': vals[2], 'A': vals[1]}]
    small_uni = [(), ('A',), ('A', 'B', 'C')]
    small = [(u, tuple(sorted(d.items())), t) for u in small_uni for d in small_alpha for t in (1, 2, 3)]
    if tier == 'quick':
        return [full, small]
    return [full, small, small[::3]]


def run(tier, res, is_known):
    res.rule = ('BFS over rebalance rounds on the real PortfolioConstructionModel + real sizer + real broker: one event = '
                '(universe subset of {A,B,C}) x (alpha weight dictionary over {A,B,C,D}, <= 3 keys, values absent/0/1/2 or '
                'absent/0/1/-1) x (price table); round = construct orders at a close, check them, fill at the next open, check '
                'holdings; from 4 initial holdings (empty, long, long/short, holding an asset of no universe); first round full '
                'menu (4200 events), later rounds a reduced menu; non-trivial = round that generated orders; distinct = state')
    fees = [('zero',), ('pct', '0.001', '0.0005')]
    combos = [('long_only', fees[1]), ('long_short', fees[0])] if tier == 'quick' else [
        (s, f) for s in ('long_only', 'long_short') for f in fees]
    res.bounds = {'rounds': 2 if tier == 'quick' else 3, 'presets': list(PRESETS), 'combos': [[s, list(f)] for s, f in combos]}
    res.assumptions += ['the sizer is trusted as a function here (decided by C10/C11): the expected target is the real sizer '
                        "called on the expected full weight vector", 'stub universe / alpha model / data handler']
    for sizer_kind, fee in combos:
        ms = menus(sizer_kind, tier)
        for preset in PRESETS:
            if preset in ('large', 'wide'):
                continue
            if tier == 'quick' and preset == 'penny' and sizer_kind != 'long_only':
                continue
            spec = Spec(sizer_kind, fee, preset, ms)
            bfs(spec, len(ms), res, is_known, label='%s fee=%s preset=%s' % (sizer_kind, '/'.join(fee), preset),
                recheck=6)
            if any(not is_known(v) for v in res.violations):
                return
    for sizer_kind in ('long_only', 'long_short'):
        spec = Spec(sizer_kind, ('zero',), 'long_AB_npstr', [menus(sizer_kind, 'quick')[1], menus(sizer_kind, 'quick')[1][::2]])
        bfs(spec, 2, res, is_known, label='%s, numpy-string symbols' % sizer_kind, recheck=4)
        if any(not is_known(v) for v in res.violations):
            return
    # a rebalance whose orders are still queued when the next one is constructed (closed exchange in between: a
    # Friday-night and a Saturday rebalance, or two closes without the open): orders are target minus HELD all the same
    for sizer_kind in ('long_only', 'long_short'):
        sm = menus(sizer_kind, 'quick')[1]
        held_menu = [e + ('hold',) for e in sm]
        for preset in ('empty', 'long_AB'):
            spec = Spec(sizer_kind, ('zero',), preset, [held_menu, sm] if tier == 'quick' else [held_menu, held_menu[::2], sm[::2]])
            bfs(spec, 2 if tier == 'quick' else 3, res, is_known, label='%s preset=%s, orders still queued at the next rebalance' % (
                sizer_kind, preset), recheck=4)
            if any(not is_known(v) for v in res.violations):
                return
    for sizer_kind in ('long_only', 'long_short'):
        wm = wide_menus(sizer_kind)
        if tier == 'quick':
            wm = [wm[0][::2], wm[1][::2], wm[2]]
        spec = Spec(sizer_kind, ('pct', '0.001', '0.0005') if sizer_kind == 'long_only' else ('zero',), 'wide', wm)
        bfs(spec, 3, res, is_known, label='%s, 40-asset universe, rotating holdings' % sizer_kind, recheck=4)
        if any(not is_known(v) for v in res.violations):
            return
    for sizer_kind in ('long_only', 'long_short'):
        spec = Spec(sizer_kind, ('zero',), 'large', large_menus(sizer_kind))
        bfs(spec, 2, res, is_known, label='%s zero fee, large holdings' % sizer_kind, recheck=6)
        if any(not is_known(v) for v in res.violations):
            return


def wide_menus(sizer_kind):
    """40-asset universe, ten names weighted per round, rotating so that the order in which positions were opened is
    not the ascending symbol order; one round also trades with part of the holdings outside the universe"""
    sets = [list(range(20, 30)), list(range(0, 5)) + list(range(25, 35)), list(range(10, 20)), list(range(1, 40, 4)),
            list(range(35, 40)) + list(range(0, 5))]
    unis = [tuple(WIDE), tuple(WIDE[:33])]

    def alpha(idx):
        if sizer_kind == 'long_only':
            return tuple(sorted((WIDE[i], 1.0 + (i % 2)) for i in idx))
        return tuple(sorted((WIDE[i], 1.0 if i % 2 else -1.0) for i in idx))
    menu = [(u, alpha(sx), t) for u in unis for sx in sets for t in (0, 2)]
    return [menu[:10], menu, menu[::3]]


def large_menus(sizer_kind):
    """first round at table 0, second round at table 3 (prices moved by 2e-6): the target moves by a few shares"""
    vals = [1.0, 2.0] if sizer_kind == 'long_only' else [1.0, -1.0]
    first = [(u, tuple(sorted(d.items())), 0) for u in [('A',), ('A', 'B')] for d in alpha_dicts(vals, 2, assets=['A', 'B'])]
    second = [(u, tuple(sorted(d.items())), t) for u in [('A',), ('A', 'B')] for d in alpha_dicts(vals, 2, assets=['A', 'B'])
              for t in (3, 0)]
    return [first, second]


def replay(case):
    hist = tuple((tuple(e[0]), tuple(tuple(x) for x in e[1]), e[2]) + tuple(e[3:]) for e in case['history'])
    spec = Spec(case['sizer'], case['fee'], case['preset'], None)
    return spec.build(hist)[1]
