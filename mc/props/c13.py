"""C13 - Rebalance schedules hold exactly the intended dates and meet a clock event."""
import datetime

import pandas as pd

from .. import refmodel as rm
from ..core import product
from .c12 import calendar_items, ts, START_TIMES, QUICK_N, THOROUGH_N

WEEKDAYS = ['MON', 'TUE', 'WED', 'THU', 'FRI']
BAD_WEEKDAYS = ['SAT', 'SUN', 'XYZ', '', 'MONDAY', 'M0N']


def stamp(d, pre):
    return rm.utc(d, 14, 30) if pre else rm.utc(d, 21, 0)


def schedules(start, end):
    """[(name, thunk building the real schedule, reference list of aware datetimes, must_align)]"""
    from qstrader.system.rebalance.weekly import WeeklyRebalance
    from qstrader.system.rebalance.daily import DailyRebalance
    from qstrader.system.rebalance.end_of_month import EndOfMonthRebalance
    from qstrader.system.rebalance.buy_and_hold import BuyAndHoldRebalance
    d0, d1 = start.date(), end.date()
    out = []
    for pre in (False, True):
        for k, wd in enumerate(WEEKDAYS):
            out.append(('weekly-%s-%s' % (wd, pre), lambda wd=wd, pre=pre: WeeklyRebalance(start, end, wd, pre_market=pre),
                        [stamp(d, pre) for d in rm.weekday_dates(d0, d1, k)], True))
        out.append(('daily-%s' % pre, lambda pre=pre: DailyRebalance(start, end, pre_market=pre),
                    [stamp(d, pre) for d in rm.bdays(d0, d1)], True))
        out.append(('end_of_month-%s' % pre, lambda pre=pre: EndOfMonthRebalance(start, end, pre_market=pre),
                    [stamp(d, pre) for d in rm.month_end_bdays(d0, d1)], True))
    sd = d0 if rm.is_bday(d0) else rm.next_bday(d0)
    out.append(('buy_and_hold', lambda: BuyAndHoldRebalance(start),
                [rm.utc(sd, start.hour, start.minute, start.second).replace(microsecond=start.microsecond)], False))
    return out


def check_range(start, end, only=None):
    from qstrader.simulation.daily_bday import DailyBusinessDaySimulationEngine
    fails = []
    n = 0
    eng = DailyBusinessDaySimulationEngine(start, end, pre_market=False, post_market=False)
    for _e in eng:           # a first look at the clock that is abandoned after one event (a user peeking at the first
        break                # timestamp); the full pass that follows must still hold every event
    clock = [e.ts for e in eng]
    for name, thunk, want, align in schedules(start, end):
        if only is not None and name != only:
            continue
        case = {'start': str(start), 'end': str(end), 'schedule': name}
        n += 1
        try:
            got = list(thunk().rebalances)
        except Exception as e:  # noqa
            fails.append({'clause': 'C13.unexpected_error', 'detail': {'error': repr(e)}, 'case': case})
            continue
        py = [rm.to_py(t) for t in got]
        if any(p is None for p in py):
            fails.append({'clause': 'C13.timezone', 'detail': {'got': [str(t) for t in got[:3]]}, 'case': case})
            continue
        if py != want:
            fails.append({'clause': 'C13.dates', 'case': case,
                          'detail': {'got': [str(t) for t in py[:6]], 'want': [str(t) for t in want[:6]],
                                     'n_got': len(py), 'n_want': len(want)}})
            continue
        if any(not (a < b) for a, b in zip(got, got[1:])):
            fails.append({'clause': 'C13.strictly_increasing', 'detail': {'got': [str(t) for t in got[:6]]}, 'case': case})
        if align:
            # membership exactly as BacktestTradingSession._is_rebalance_event does it, both ways
            missing = [str(t) for t in got if t not in clock]
            hit = [t for t in clock if t in got]
            if missing or len(hit) != len(got):
                fails.append({'clause': 'C13.meets_clock_event', 'case': case,
                              'detail': {'instants_without_clock_event': missing[:5], 'clock_hits': len(hit),
                                         'instants': len(got)}})
    return fails, n


def check_bad_weekdays(start, end):
    from qstrader.system.rebalance.weekly import WeeklyRebalance
    fails = []
    for wd in BAD_WEEKDAYS:
        case = {'start': str(start), 'end': str(end), 'bad_weekday': wd}
        try:
            WeeklyRebalance(start, end, wd)
            fails.append({'clause': 'C13.bad_weekday_accepted', 'signature': wd, 'detail': case, 'case': case})
        except ValueError:
            pass
        except Exception as e:  # noqa
            fails.append({'clause': 'C13.bad_weekday_error_type', 'signature': wd, 'detail': {'error': repr(e)},
                          'case': case})
    for wd in ('wed', 'Fri'):
        case = {'start': str(start), 'end': str(end), 'lower_weekday': wd}
        try:
            a = WeeklyRebalance(start, end, wd).rebalances
            b = WeeklyRebalance(start, end, wd.upper()).rebalances
            if a != b:
                fails.append({'clause': 'C13.weekday_case', 'detail': case, 'case': case})
        except Exception as e:  # noqa
            fails.append({'clause': 'C13.weekday_case', 'detail': {'error': repr(e)}, 'case': case})
    return fails


def per_start(item):
    d0 = datetime.date.fromordinal(item[0])
    viols, n, shapes, ninst = [], 0, set(), 0
    for k in item[1]:
        if item[2] == 'quick' and k > 40:
            continue
        d1 = d0 + datetime.timedelta(days=k)
        for st in START_TIMES:
            for et in (st, (23, 59)):
                if item[2] == 'quick' and st == (9, 15) and et == st:
                    continue
                f, c = check_range(ts(d0, st), ts(d1, et))
                n += c
                viols += f
        shapes.add((d0.weekday(), d0.month, k))
        if len(viols) > 10:
            break
    if d0.day in (3, 17, 28):
        # a start (and end) with a sub-second part, e.g. pd.Timestamp.now(): stamps are still 21:00:00 / 14:30:00 sharp
        import pandas as pd
        for k in (6, 33):
            st = ts(d0, (9, 15)) + pd.Timedelta(microseconds=345678)
            en = ts(d0 + datetime.timedelta(days=k), (23, 59)) + pd.Timedelta(microseconds=999999)
            f, c = check_range(st, en)
            n += c
            viols += f
    if d0.day in (1, 15):
        viols += check_bad_weekdays(ts(d0, (0, 0)), ts(d0 + datetime.timedelta(days=20), (23, 59)))
        n += len(BAD_WEEKDAYS) + 2
    return {'viols': viols[:10], 'execs': n, 'evals': n, 'nontrivial': True, 'outcome': None,
            'counters': {'schedules_built': n}, 'sets': {'shapes': shapes},
            'sample': {'start_date': str(d0), 'schedules': n}}


def per_long_start(item):
    d0 = datetime.date.fromordinal(item[0])
    viols, n = [], 0
    for k in item[1]:
        f, c = check_range(ts(d0, (0, 0)), ts(d0 + datetime.timedelta(days=k), (23, 59)))
        n += c
        viols += f
    return {'viols': viols[:6], 'execs': n, 'evals': n, 'nontrivial': True, 'outcome': None,
            'counters': {'schedules_built': n, 'long_schedules': n}}


def per_env_start(item):
    """the same schedules and the same clock in a process whose LOCAL time zone is not UTC"""
    z, o, ns, tier = item
    with rm.process_tz(z):
        out = per_start((o, ns, tier))
    for v in out['viols']:
        v['case'] = dict(v.get('case', {}), process_tz=z)
    return out


def items(tier):
    its = [it + (tier,) for it in calendar_items(tier)]
    if tier == 'thorough':
        # the weekly/daily/month-end logic has period <= 1 year of alignments: every 3rd start date of the
        # 28-year cycle keeps all weekday/month/leap combinations (7 and 3 are coprime)
        base = [it for i, it in enumerate(its) if it[1] == tuple(THOROUGH_N)]
        extra = [it for it in its if it[1] != tuple(THOROUGH_N)]
        its = base[::3] + extra
    return its


def run(tier, res, is_known):
    its = items(tier)
    res.rule = ('every start date of the window x lengths n x start time {00:00, 09:15, 14:30} x end time {same, 23:59}: '
                'weekly x 5 weekdays, daily, end-of-month (each x pre-market flag) and buy-and-hold are built with the '
                'real classes and compared with an independent datetime.date calendar; every instant must be a member '
                'of the real clock for the same range (membership test as the session does it); invalid weekdays are '
                'refused; distinct = (weekday, month, length) shapes')
    res.bounds = {'start_dates': len(its), 'n_days': QUICK_N if tier == 'quick' else THOROUGH_N}
    res.assumptions += ["'inside the range' is read at date granularity; start times of day <= 14:30, end time of day "
                        "not before the start's"]
    product(per_start, its, res, is_known, label='schedules', sample_every=97, chunk=4)
    if any(not is_known(v) for v in res.violations):
        return
    from .c12 import long_items
    product(per_long_start, long_items(tier), res, is_known, label='ranges of 1-3 years', chunk=1)
    if any(not is_known(v) for v in res.violations):
        return
    from .c12 import env_items, future_items
    product(per_env_start, [it + (tier,) for it in env_items(tier)], res, is_known, label='process-local time zone other than UTC',
            chunk=1)
    product(per_start, [it + (tier,) for it in future_items(tier)], res, is_known, label='windows around and after the day of the run',
            chunk=2)
    res.states = res.extra.get('schedules_built', 0)
    res.transitions = res.states
    shapes = res.extra.pop('shapes', set())
    res.nontrivial = set(shapes)
    res.outcomes = set(shapes)


def replay(case):
    if case.get('process_tz'):
        with rm.process_tz(case['process_tz']):
            return replay({k: v for k, v in case.items() if k != 'process_tz'})
    start, end = pd.Timestamp(case['start']), pd.Timestamp(case['end'])
    if 'bad_weekday' in case or 'lower_weekday' in case:
        fs = check_bad_weekdays(start, end)
        key = case.get('bad_weekday', case.get('lower_weekday'))
        return [f for f in fs if f['case'].get('bad_weekday', f['case'].get('lower_weekday')) == key]
    return check_range(start, end, only=case['schedule'])[0]
