"""C18 - Identical inputs give identical results.

1. in-process: every iteration of a set/frozenset created inside a qstrader module and every order
   id issued are choice points of the stateless explorer (core.choices); all executions with at
   most 2 deviations from the default answers must produce one digest per configuration;
2. fresh interpreters under PYTHONHASHSEED values chosen so that the witness sets realise all 3!
   iteration orders (realised orders are recorded), plus 'random';
3. every ordered pair of configurations run back to back on the SAME memoised data source /
   handler objects (also the same one twice, also after a burst of unrelated price queries).
"""
import copy
import datetime
import hashlib
import itertools
import json
import math
import os
import shutil
import subprocess
import sys

from .. import core
from ..env import HarnessError, scratch_dir, VERIF

DAYS_N = 6
NAMES = ['EQ:AAA', 'EQ:BBB', 'EQ:CCC']


# ------------------------------------------------------------------------------------------
# configurations and market
# ------------------------------------------------------------------------------------------
def market_and_configs():
    from .. import refmodel as rm
    from .. import sessionlab as sl
    days = rm.bdays(datetime.date(2020, 2, 17), datetime.date(2020, 3, 6))
    market = sl.make_market(days, {'AAA': ('rising', '41.37'), 'BBB': ('rising', '41.37'), 'CCC': ('zigzag', '17.93')})
    start = rm.utc(datetime.date(2020, 2, 24), 14, 30)
    end = rm.utc(datetime.date(2020, 3, 2), 23, 59)
    before = (start - datetime.timedelta(days=5)).isoformat()
    day2 = rm.utc(datetime.date(2020, 2, 26), 0, 0).isoformat()
    base = {'start': start.isoformat(), 'end': end.isoformat(), 'burn_in': None, 'assets': NAMES, 'cash': 100007.31,
            'fee': ['pct', '0.001', '0.0005'], 'universe': {'kind': 'static'}, 'weekday': None}
    cfgs = [
        dict(base, name='fixed-longonly-weekly', alpha={'kind': 'fixed', 'weights': {'EQ:CCC': 0.2, 'EQ:AAA': 0.5, 'EQ:BBB': 0.3}},
             rebalance='weekly', weekday='WED', long_only=True, buffer=0.05),
        dict(base, name='fixed-longshort-daily', alpha={'kind': 'fixed', 'weights': {'EQ:BBB': -0.3, 'EQ:CCC': 0.2, 'EQ:AAA': 0.5}},
             rebalance='daily', long_only=False, leverage=1.5),
        dict(base, name='single-dynamic-daily', alpha={'kind': 'single', 'signal': 1.0},
             universe={'kind': 'dynamic', 'entries': {'EQ:CCC': day2, 'EQ:AAA': before, 'EQ:BBB': day2}},
             rebalance='daily', long_only=True, buffer=0.05),
        dict(base, name='momentum-ties-daily', alpha={'kind': 'mom_top1', 'lookback': 2}, rebalance='daily',
             long_only=True, buffer=0.05),
        dict(base, name='sma-longshort-daily', alpha={'kind': 'sma_trend', 'fast': 2, 'slow': 3}, rebalance='daily',
             long_only=False, leverage=1.0,
             universe={'kind': 'dynamic', 'entries': {'EQ:BBB': before, 'EQ:CCC': day2, 'EQ:AAA': day2}}),
        dict(base, name='invvol-buyhold', alpha={'kind': 'inv_vol', 'lookback': 2}, rebalance='end_of_month',
             long_only=True, buffer=0.0),
        # an asset whose data start after the session does: prices are asked before its first bar (the run
        # stops with the documented NaN-price error; that outcome is part of the digest)
        # two data sources behind one handler; the second session covers only dates that both sources cover
        dict(base, name='twosrc-full', market='twosrc', alpha={'kind': 'fixed', 'weights': {'EQ:AAA': 0.6, 'EQ:BBB': 0.4}},
             rebalance='daily', long_only=True, buffer=0.05),
        dict(base, name='twosrc-late', market='twosrc', alpha={'kind': 'fixed', 'weights': {'EQ:AAA': 0.6, 'EQ:BBB': 0.4}},
             rebalance='daily', long_only=True, buffer=0.05,
             start=rm.utc(datetime.date(2020, 2, 28), 14, 30).isoformat()),
        # the same dates as the first configuration, the start written as a plain day (00:00) instead of 14:30
        dict(base, name='fixed-longonly-daily-from-midnight',
             alpha={'kind': 'fixed', 'weights': {'EQ:CCC': 0.2, 'EQ:AAA': 0.5, 'EQ:BBB': 0.3}},
             rebalance='daily', long_only=True, buffer=0.05, start=rm.utc(datetime.date(2020, 2, 24), 0, 0).isoformat()),
        # ... and with the END written as a plain day (00:00) while the start is 14:30
        dict(base, name='fixed-longonly-daily-end-as-plain-day',
             alpha={'kind': 'fixed', 'weights': {'EQ:CCC': 0.2, 'EQ:AAA': 0.5, 'EQ:BBB': 0.3}},
             rebalance='daily', long_only=True, buffer=0.05, end=rm.utc(datetime.date(2020, 3, 2), 0, 0).isoformat()),
        # knife-edge sizing: weights whose float sum depends on the order of addition (0.1, 0.2, 0.3), round prices and a
        # round account, so that the last bit of a sum decides a share - identical inputs must still give one result
        dict(base, name='knife-edge-daily', market='round', cash=1000000.0, fee=['zero'],
             alpha={'kind': 'fixed', 'weights': {'EQ:CCC': 0.3, 'EQ:AAA': 0.1, 'EQ:BBB': 0.2}},
             rebalance='daily', long_only=True, buffer=0.0),
        dict(base, name='late-data-momentum', market='late', alpha={'kind': 'mom_top1', 'lookback': 1}, rebalance='daily',
             long_only=True, buffer=0.05),
    ]
    return market, cfgs


def market_for(cfg):
    """most configurations share one market; 'late-data' uses one where CCC's file starts three days late"""
    from .. import refmodel as rm
    from .. import sessionlab as sl
    market, _ = market_and_configs()
    if cfg.get('market') == 'twosrc':
        # the first (priority) source's AAA file starts late; a second source carries AAA from the start at other prices
        days = rm.bdays(datetime.date(2020, 2, 17), datetime.date(2020, 3, 6))
        market = dict(market)
        market['AAA'] = [r for r in market['AAA'] if r[0] >= datetime.date(2020, 2, 27)]
        market['AAA@2'] = sl.make_market(days, {'X': ('zigzag', '77.77')})['X']
    if cfg.get('market') == 'round':
        days = rm.bdays(datetime.date(2020, 2, 17), datetime.date(2020, 3, 6))
        market = sl.make_market(days, {'AAA': ('flat', '50'), 'BBB': ('flat', '125'), 'CCC': ('flat', '100')})
    if cfg.get('market') == 'late':
        days = rm.bdays(datetime.date(2020, 2, 17), datetime.date(2020, 3, 6))
        market = dict(market)
        market['CCC'] = [r for r in market['CCC'] if r[0] >= datetime.date(2020, 2, 27)]
    return market


def digest_obs(obs):
    parts = obs.digest_parts(with_order_ids=False)
    return hashlib.blake2b(repr(parts).encode(), digest_size=12).hexdigest()


# ------------------------------------------------------------------------------------------
# seams: set iteration order and order ids
# ------------------------------------------------------------------------------------------
CHOOSER = None


def nth_permutation(items, k):
    items = list(items)
    out = []
    for i in range(len(items), 0, -1):
        f = math.factorial(i - 1)
        j, k = divmod(k, f)
        out.append(items.pop(j))
    return out


class ChoiceSet(set):
    """A set whose iteration order is an answer of the explorer (default: sorted)."""

    def __iter__(self):
        items = sorted(set.__iter__(self), key=repr)
        if len(items) < 2 or CHOOSER is None:
            return iter(items)
        k = CHOOSER.choose(math.factorial(len(items)), 'set-iteration of %d' % len(items))
        return iter(nth_permutation(items, k))

    def _wrap(self, r):
        return ChoiceSet(set.__iter__(r)) if isinstance(r, (set, frozenset)) else r

    def union(self, *o):
        return self._wrap(set.union(self, *o))

    def intersection(self, *o):
        return self._wrap(set.intersection(self, *o))

    def difference(self, *o):
        return self._wrap(set.difference(self, *o))

    def symmetric_difference(self, o):
        return self._wrap(set.symmetric_difference(self, o))

    def copy(self):
        return self._wrap(set.copy(self))

    def __or__(self, o):
        return self._wrap(set.__or__(self, o))

    def __and__(self, o):
        return self._wrap(set.__and__(self, o))

    def __sub__(self, o):
        return self._wrap(set.__sub__(self, o))

    def __xor__(self, o):
        return self._wrap(set.__xor__(self, o))

    __ror__ = __or__
    __rand__ = __and__


class UuidSeam(object):
    """uuid4() whose rank among the ids of the current batch is an answer of the explorer."""

    class _U(object):
        def __init__(self, n):
            self.int = n
            self.hex = '%032x' % n

        def __str__(self):
            return self.hex

    def __init__(self):
        self.batch = []
        self.base = 0

    def new_batch(self):
        self.base += 1
        self.batch = []

    def uuid4(self):
        k = len(self.batch)
        rank = k
        if CHOOSER is not None and k >= 1:
            c = CHOOSER.choose(k + 1, 'order-id rank among %d' % k)
            rank = k - c                    # default 0 = ascending (largest so far)
        lo = self.batch[rank - 1] if rank > 0 else (self.base << 100)
        hi = self.batch[rank] if rank < k else ((self.base + 1) << 100)
        n = (lo + hi) // 2
        self.batch.insert(rank, n)
        return UuidSeam._U(n)

    def __getattr__(self, name):
        import uuid
        return getattr(uuid, name)


def install_seams():
    mods = [m for n, m in sorted(sys.modules.items()) if n.startswith('qstrader') and m is not None]
    saved = []
    for m in mods:
        saved.append((m, m.__dict__.get('set', None), m.__dict__.get('frozenset', None)))
        m.__dict__['set'] = ChoiceSet
        m.__dict__['frozenset'] = ChoiceSet
    seam = UuidSeam()
    # wherever a qstrader module draws random identifiers from the uuid module (today: execution/order.py), the
    # draw becomes an answer of the explorer.  A library that takes its ids from somewhere deterministic has no
    # such source of nondeterminism to own, and nothing is patched.
    import uuid as _uuid_mod
    saved_ids = []
    for m in mods:
        if m.__dict__.get('uuid') is _uuid_mod:
            saved_ids.append((m, 'uuid', _uuid_mod))
            m.__dict__['uuid'] = seam
        if m.__dict__.get('uuid4') is _uuid_mod.uuid4:
            saved_ids.append((m, 'uuid4', _uuid_mod.uuid4))
            m.__dict__['uuid4'] = seam.uuid4
    seam.sites = len(saved_ids)

    def restore():
        for m, s, f in saved:
            for name, old in (('set', s), ('frozenset', f)):
                if old is None:
                    m.__dict__.pop(name, None)
                else:
                    m.__dict__[name] = old
        for m, name, old in saved_ids:
            m.__dict__[name] = old
    return seam, restore, len(mods)


def load_everything():
    """import every qstrader module so that the seams reach all of them"""
    import importlib
    import pkgutil
    import qstrader
    for m in pkgutil.walk_packages(qstrader.__path__, 'qstrader.'):
        try:
            importlib.import_module(m.name)
        except Exception:  # noqa
            pass


def run_one(cfg, handler, seam=None):
    from .. import sessionlab as sl
    if seam is not None:
        orig_build = sl.build_session

    obs = sl.run_session(cfg, handler)
    return obs


def explore_config(args):
    """sub-check 1 for one configuration: all executions with <= bound deviations"""
    global CHOOSER
    from .. import market as mk
    from .. import sessionlab as sl
    idx, bound, max_execs = args
    market, cfgs = market_and_configs()
    cfg = cfgs[idx]
    market = market_for(cfg)
    d = scratch_dir('qsc18-')
    load_everything()
    seam, restore, nmods = install_seams()
    digests = {}
    per_bound = {0: 0, 1: 0, 2: 0}
    points = []
    viols = []
    n = 0
    try:
        sl.write_market(d, market)
        handler, _ = sl.load_handler(d, market)

        def run(prefix):
            global CHOOSER
            ch = core.Chooser(prefix)
            CHOOSER = ch
            seam.base = 0
            seam.batch = []
            try:
                session, signals = sl.build_session(cfg, copy.deepcopy(handler))
                pcm = session.qts.portfolio_construction_model
                orig_call = pcm._generate_rebalance_orders if hasattr(pcm, '_generate_rebalance_orders') else None
                if orig_call is not None:
                    def gen(*a, **k):
                        seam.new_batch()
                        return orig_call(*a, **k)
                    pcm._generate_rebalance_orders = gen
                obs = run_built(session, signals)
            finally:
                CHOOSER = None
            return ch, digest_obs(obs)

        def run_built(session, signals):
            # same recording as sessionlab.run_session, on an already built session
            obs = sl.Obs()
            obs.session, obs.signals = session, signals
            pid = session.portfolio_id
            port = session.broker.portfolios[pid]
            orig = port.transact_asset

            def rec(txn):
                orig(txn)
                obs.fills.append((txn.dt, txn.asset, txn.quantity, txn.price, txn.commission, txn.order_id))
            port.transact_asset = rec
            import warnings
            with warnings.catch_warnings():
                warnings.simplefilter('ignore')
                try:
                    session.run()
                    obs.allocs = list(session.target_allocations)
                except Exception as e:  # noqa
                    obs.error = (type(e).__name__, str(e), '')
            obs.equity = list(session.equity_curve)
            return obs
        if bound == 'auto':
            # quick tier: 2 deviations where the default run has few choice points, else 1 (stated bound, no cap)
            ch0, _ = run(())
            bound = 2 if len(ch0.choices) <= 8 else 1
        for choices_, devs, dg in core.choices(run, bound, max_execs=max_execs):
            n += 1
            per_bound[devs] = per_bound.get(devs, 0) + 1
            if n == 1:
                points = [len(choices_)]
            digests.setdefault(dg, list(choices_))
        capped = max_execs is not None and n >= max_execs
        if len(digests) > 1:
            ds = sorted(digests.items(), key=lambda kv: sum(1 for c in kv[1] if c))
            viols.append({'clause': 'C18.depends_on_iteration_order_or_order_ids', 'signature': cfg['name'],
                          'detail': {'configuration': cfg['name'], 'distinct_digests': len(digests),
                                     'default_choices': ds[0][1], 'deviating_choices': ds[1][1]},
                          'case': {'kind': 'choices', 'config': idx, 'choices': ds[1][1]}})
    finally:
        restore()
        mk.clear_caches()
        shutil.rmtree(d, ignore_errors=True)
    return {'viols': viols, 'execs': n, 'evals': n, 'nontrivial': points and points[0] > 0,
            'outcome': (cfg['name'], tuple(sorted(digests))),
            'counters': {'choice_executions': n, 'executions_0_deviations': per_bound.get(0, 0),
                         'executions_1_deviation': per_bound.get(1, 0), 'executions_2_deviations': per_bound.get(2, 0),
                         'capped_configs': int(capped)},
            'sets': {'choice_points_per_default_run': set([(cfg['name'], points[0] if points else 0)]),
                     'deviation_bound_completed': set([(cfg['name'], bound if not capped else 'capped')]),
                     'modules_with_injected_set': set([nmods])},
            'sample': {'configuration': cfg['name'], 'executions': n, 'choice_points_in_default_run': points,
                       'distinct_digests': len(digests)}}


# ------------------------------------------------------------------------------------------
# sub-check 3: history of the shared memoised source
# ------------------------------------------------------------------------------------------
def other_market():
    """same symbols and dates, different prices"""
    from .. import refmodel as rm
    from .. import sessionlab as sl
    days = rm.bdays(datetime.date(2020, 2, 17), datetime.date(2020, 3, 6))
    return sl.make_market(days, {'AAA': ('falling', '77.77'), 'BBB': ('zigzag', '12.34'), 'CCC': ('rising', '55.05')})


def pristine_digest(j):
    """digest of configuration j in a process that has done nothing else"""
    from .. import sessionlab as sl
    market, cfgs = market_and_configs()
    market = market_for(cfgs[j])
    d = scratch_dir('qsc18p-')
    try:
        sl.write_market(d, market)
        h, _ = sl.load_handler(d, market)
        return digest_obs(sl.run_session(cfgs[j], h))
    finally:
        shutil.rmtree(d, ignore_errors=True)


def shared_source(args):
    from .. import market as mk
    from .. import sessionlab as sl
    import pandas as pd
    i, j, mode, want = args
    market, cfgs = market_and_configs()
    market = market_for(cfgs[j])
    d = scratch_dir('qsc18s-')
    viols = []
    try:
        if mode == 'other_market':
            # an unrelated market is traded first in this process, on its own data source objects
            d2 = scratch_dir('qsc18o-')
            try:
                m2 = other_market()
                sl.write_market(d2, m2)
                h2, _ = sl.load_handler(d2, m2)
                sl.run_session(cfgs[i], h2)
            finally:
                shutil.rmtree(d2, ignore_errors=True)
        if mode == 'rewritten_dir':
            # the CSV files of this very directory held other prices when an earlier session ran in this process
            m2 = other_market()
            sl.write_market(d, m2)
            h2, _ = sl.load_handler(d, m2)
            sl.run_session(cfgs[i], h2)
        sl.write_market(d, market)
        handler, src = sl.load_handler(d, market)
        if mode == 'burst':
            for a in NAMES:
                for day in range(14, 30):
                    for hh in (0, 14, 15, 21, 23):
                        t = pd.Timestamp(datetime.datetime(2020, 2, day, hh, 30 if hh == 14 else 0), tz='UTC')
                        src.get_bid(t, a)
                        src.get_ask(t, a)
        elif mode == 'orders_before':
            # i orders were created earlier in this process (a parameter sweep, a long run): the ids of this
            # session's orders then straddle a power of ten, whatever the library draws them from
            from qstrader.execution.order import Order
            t0 = pd.Timestamp('2020-02-24 14:30', tz='UTC')
            for _ in range(i):
                Order(t0, 'EQ:AAA', 1)
        elif mode == 'pair':
            sl.run_session(cfgs[i], handler, fresh=False)
        if mode == 'shared_universe':
            # the SAME universe object (and data source) serves the session twice
            uni = sl.make_universe(cfgs[j])
            sl.run_session(cfgs[j], handler, universe=uni, fresh=False)
            got = digest_obs(sl.run_session(cfgs[j], handler, universe=uni, fresh=False))
        else:
            got = digest_obs(sl.run_session(cfgs[j], handler, fresh=False))
        if got != want:
            viols.append({'clause': 'C18.depends_on_source_history', 'signature': '%s' % mode,
                          'detail': {'first': {'pair': cfgs[min(i, len(cfgs) - 1)]['name'], 'burst': 'burst of price queries',
                                               'orders_before': '%d orders created earlier in the process' % i,
                                               'other_market': cfgs[min(i, len(cfgs) - 1)]['name'] + ' on another market',
                                               'rewritten_dir': cfgs[min(i, len(cfgs) - 1)]['name'] + ' on other prices in the same directory',
                                               'shared_universe': 'the same session on the same universe object'}[mode],
                                     'second': cfgs[j]['name'], 'digest_in_pristine_process': want,
                                     'digest_after_history': got},
                          'case': {'kind': 'shared', 'i': i, 'j': j, 'mode': mode, 'want': want}})
        # and the same configuration again in the same process on fresh objects
        h3, _ = sl.load_handler(d, market)
        again = digest_obs(sl.run_session(cfgs[j], h3))
        if again != want:
            viols.append({'clause': 'C18.repeat_in_process', 'signature': cfgs[j]['name'],
                          'detail': {'configuration': cfgs[j]['name'], 'pristine': want, 'again': again},
                          'case': {'kind': 'shared', 'i': i, 'j': j, 'mode': mode, 'want': want}})
    finally:
        mk.clear_caches()
        shutil.rmtree(d, ignore_errors=True)
    return {'viols': viols, 'execs': 4, 'evals': 2, 'nontrivial': True, 'outcome': (i, j, mode, want),
            'counters': {'shared_source_sequences': 1}}


# ------------------------------------------------------------------------------------------
# sub-check 2: fresh interpreters
# ------------------------------------------------------------------------------------------
def child_main():
    """runs every configuration once; prints digests and the realised witness orders"""
    from .. import env
    env.setup()
    from .. import market as mk
    from .. import sessionlab as sl
    market, cfgs = market_and_configs()
    d = scratch_dir('qsc18c-')
    out = {'witness_full': list(set(NAMES)), 'witness_diff': list(set(NAMES) - set(NAMES[:1])), 'digests': {}}
    try:
        for cfg in cfgs:
            for f in os.listdir(d):
                pth = os.path.join(d, f)
                if os.path.isdir(pth):
                    shutil.rmtree(pth, ignore_errors=True)
                else:
                    os.unlink(pth)
            m = market_for(cfg)
            sl.write_market(d, m)
            handler, _ = sl.load_handler(d, m)
            out['digests'][cfg['name']] = digest_obs(sl.run_session(cfg, handler))
            mk.clear_caches()
    finally:
        shutil.rmtree(d, ignore_errors=True)
    print('C18CHILD ' + json.dumps(out))


def find_seeds(n_max=400):
    """smallest hash seeds whose list(set(NAMES)) realise all 3! orders (trivial subprocesses)"""
    code = ("import sys;N=%r;print(','.join(list(set(N))))" % (NAMES,))
    found = {}
    for s in range(n_max):
        r = subprocess.run([sys.executable, '-c', code], env=dict(os.environ, PYTHONHASHSEED=str(s)),
                           capture_output=True, text=True)
        order = r.stdout.strip()
        if order and order not in found:
            found[order] = s
            if len(found) == 6:
                break
    return found


def run_children(seeds):
    env = dict(os.environ)
    outs = {}
    procs = []
    for s in seeds:
        e = dict(env, PYTHONHASHSEED=str(s), MC_NO_REEXEC='1')
        procs.append((s, subprocess.Popen([sys.executable, '-m', 'mc.props.c18', '--child'], cwd=VERIF, env=e,
                                          stdout=subprocess.PIPE, stderr=subprocess.PIPE, text=True)))
    for s, p in procs:
        so, se = p.communicate(timeout=600)
        line = [l for l in so.splitlines() if l.startswith('C18CHILD ')]
        if p.returncode != 0 or not line:
            raise HarnessError('C18 child (seed %s) failed: %s' % (s, se[-800:]))
        outs[s] = json.loads(line[0][len('C18CHILD '):])
    return outs


def run(tier, res, is_known):
    market, cfgs = market_and_configs()
    bound = 'auto' if tier == 'quick' else 2
    max_execs = 20000
    res.rule = ('(1) stateless choice-sequence exploration: set/frozenset iteration order in every qstrader module and the rank '
                'of each new order id are choice points; all executions with <= 2 deviations per configuration must give one '
                'digest (fills without order ids, equity curve, target allocations incl. key order); (2) fresh interpreters under '
                'hash seeds realising all 3! orders of the witness sets + random; (3) every ordered pair of configurations on the '
                'same memoised data source, each configuration twice, and after a burst of unrelated queries; non-trivial = run '
                'with at least one choice point')
    res.bounds = {'deviation_bound': bound, 'configurations': [c['name'] for c in cfgs], 'max_executions_per_configuration': max_execs}
    res.assumptions += ['set literals / comprehensions inside qstrader cannot be intercepted in-process; they are covered by the '
                        'fresh-interpreter runs only', 'floating point identity only within one interpreter build']
    core.product(explore_config, [(i, bound, max_execs) for i in range(len(cfgs))], res, is_known,
                 label='choice exploration', chunk=1)
    if res.extra.get('capped_configs'):
        res.cap('choice exploration hit the per-configuration execution cap (%d) in %d configurations; bound 1 is '
                'complete below it' % (max_execs, res.extra['capped_configs']))
    if any(not is_known(v) for v in res.violations):
        return
    pristine = dict(zip(range(len(cfgs)), core.pmap(pristine_digest, list(range(len(cfgs))), chunk=1)))
    res.executions += len(cfgs)
    pairs = [(i, j, 'pair', pristine[j]) for i in range(len(cfgs)) for j in range(len(cfgs))
             if cfgs[i].get('market') == cfgs[j].get('market') or cfgs[j].get('market') is None]
    pairs += [(0, j, 'burst', pristine[j]) for j in range(len(cfgs))]
    pairs += [(i, j, 'other_market', pristine[j]) for i in (0, 1, 3) for j in range(len(cfgs))]
    pairs += [(i, j, 'rewritten_dir', pristine[j]) for i in (0, 1) for j in range(len(cfgs))]
    pairs += [(j, j, 'shared_universe', pristine[j]) for j in range(len(cfgs))]
    ks = (1, 2, 3, 6) if tier == 'quick' else (1, 2, 3, 4, 5, 6)
    pairs += [(10 ** k - dd, j, 'orders_before', pristine[j]) for k in ks for dd in (0, 1, 2, 3) for j in (0, 1)]
    core.product(shared_source, pairs, res, is_known, label='shared source / process histories', chunk=1)
    if any(not is_known(v) for v in res.violations):
        return
    # fresh interpreters
    found = find_seeds()
    seeds = sorted(found.values())
    if tier == 'thorough':
        seeds = seeds + [s + 1000 for s in seeds]
    seeds = [str(s) for s in seeds] + ['random']
    outs = run_children(seeds)
    res.executions += len(seeds) * len(cfgs)
    res.extra['hash_seeds'] = seeds
    res.extra['realised_witness_orders'] = sorted(set(','.join(o['witness_full']) for o in outs.values()))
    res.extra['realised_difference_orders'] = sorted(set(','.join(o['witness_diff']) for o in outs.values()))
    if len(found) < 6:
        res.cap('only %d of 6 iteration orders of the witness set were realised by seeds 0..399' % len(found))
    for j, cfg in enumerate(cfgs):
        mine = pristine[j]
        others = {sd: o['digests'][cfg['name']] for sd, o in outs.items()}
        bad = {sd: val for sd, val in others.items() if val != mine}
        res.outcomes.add((cfg['name'], mine))
        if bad:
            s0 = sorted(bad)[0]
            res.add_violation({'clause': 'C18.depends_on_hash_seed', 'signature': cfg['name'],
                               'detail': {'configuration': cfg['name'], 'seed_0_process': mine, 'other_seeds': bad},
                               'case': {'kind': 'seed', 'config': cfg['name'], 'seed': s0}})
    res.states = res.executions
    res.transitions = res.executions


def replay(case):
    from .. import env
    if case['kind'] == 'choices':
        global CHOOSER
        out = explore_config((case['config'], 2, 3000))
        return out['viols']
    if case['kind'] == 'shared':
        return shared_source((case['i'], case['j'], case['mode'], case['want']))['viols']
    if case['kind'] == 'seed':
        outs = run_children([str(case['seed']), '0'])
        a, b = [o['digests'][case['config']] for o in outs.values()]
        if a != b:
            return [{'clause': 'C18.depends_on_hash_seed', 'signature': case['config'], 'detail': {'digests': [a, b]}}]
        return []
    return []


if __name__ == '__main__':
    if '--child' in sys.argv:
        child_main()
