"""C05 - Fills use the current quote and charge exactly the fee model's commission."""
import itertools

from .. import brokermachine as bm
from ..core import product

RATES = ['0', '0.0000278', '0.00035', '0.001', '0.0025', '0.5', '1']
OPEN_INSTANTS = [2, 3, 4, 9]
INIT = (('acct_sub', '5000000000'), ('create', '1'), ('pf_sub', '1', '200000'))


def fees(tier):
    out = [('zero',)]
    for c in RATES:
        for t in RATES:
            out.append(('pct', c, t))
    return out


def qtys(tier):
    q = [1, 7, 100, 333]
    if tier == 'thorough':
        q += [2, 50, 9999]
    return [s * x for x in q for s in (1, -1)]


def items(tier):
    out = []
    # the quote table varies fastest: consecutive executions in one process use other quotes at the same instant
    for fee in fees(tier):
        for asset in ('A', 'Bq'):
            for q in qtys(tier):
                for j in OPEN_INSTANTS:
                    for table in (0, 1, 2, 3, 5):
                        out.append({'fee': list(fee), 'history': [list(e) for e in INIT] + [
                            ['quotes', table], ['submit', '1', asset, q], ['tick', j]]})
    # considerations a hair away from a half unit (table 6)
    for fee in [('pct', '0.001', '0'), ('pct', '0.0025', '0.005'), ('pct', '0.5', '0')]:
        for asset in ('A', 'Bq'):
            for q in (50, -50, 30, -30):
                for j in ((3,) if tier == 'quick' else OPEN_INSTANTS):
                    out.append({'fee': list(fee), 'history': [list(e) for e in INIT] + [
                        ['quotes', 6], ['submit', '1', asset, q], ['tick', j]]})
    # two-order batches: buy and sell of the same size in one update (incl. the symmetric table)
    tables = (4, 0, 2) if tier == 'quick' else (4, 0, 1, 2, 3)
    for fee in fees(tier):
        for table in tables:
            for asset in ('A', 'Bq'):
                for q in (qtys(tier)[::2]):
                    for j in ((3,) if tier == 'quick' else OPEN_INSTANTS):
                        out.append({'fee': list(fee), 'pair': True, 'history': [list(e) for e in INIT] + [
                            ['quotes', table], ['submit', '1', asset, q], ['submit', '1', asset, -q],
                            ['tick', j]]})
    return out


def evaluate(case):
    hist = tuple(tuple(e) for e in case['history'])
    m, fails = bm.build(tuple(case['fee']), hist, check_last=True)
    txns = [t for _, t in m.step_txns]
    want = 2 if case.get('pair') else 1
    if len(txns) != want:
        fails = fails + [bm.fail('C05.no_fill_observed', {'fills': len(txns), 'expected': want})]
    for t in txns:
        if not (t.commission >= 0):
            fails.append(bm.fail('C05.negative_commission', {'commission': t.commission, 'qty': t.quantity}))
    if case.get('pair') and len(txns) == 2:
        table = bm.QUOTES[m.dh.table]
        a = txns[0].asset
        if table[a][0] == table[a][1]:
            # same price on both sides => same |consideration| => identical commission
            if not bm.close(txns[0].commission, txns[1].commission):
                fails.append(bm.fail('C05.buy_sell_symmetry', {'commissions': [t.commission for t in txns],
                                                               'qty': [t.quantity for t in txns]}))
    # what is actually debited: cash delta of the update = -(price x qty + documented commission) per fill
    if txns and not [f for f in fails if f['clause'].startswith('C05.')]:
        table = bm.QUOTES[m.dh.table]
        want = bm.F('200000')
        ok_alt = [want]
        for t in txns:
            side = bm.F(table[t.asset][1] if t.quantity > 0 else table[t.asset][0])
            comms = bm.ref_commission(tuple(case['fee']), side, bm.F(int(t.quantity)))
            ok_alt = [w - (side * int(t.quantity) + c) for w in ok_alt for c in comms]
        cash = m.broker.get_portfolio_cash_balance('1')
        if not any(bm.close(cash, w) for w in ok_alt):
            fails.append(bm.fail('C05.commission_debited', {'cash_after': cash, 'expected': [float(w) for w in ok_alt],
                                                           'fills': [[t.asset, t.quantity, t.price, t.commission] for t in txns],
                                                           'fee': case['fee']}))
    return m, fails, txns


def two_brokers(case):
    """Two live brokers with differently quoting data handlers, used alternately at the same instant: every fill
    must come from its own broker's data handler."""
    fee = tuple(case['fee'])
    x, y = bm.BrokerMachine(fee), bm.BrokerMachine(fee)
    fails = []
    for m in (x, y):
        for ev in INIT:
            m.step(tuple(ev), check=False)
    x.step(('quotes', case['tx']), check=False)
    y.step(('quotes', case['ty']), check=False)
    j, a, q = case['instant'], case['asset'], case['qty']
    plan = [(x, ('submit', '1', a, q)), (x, ('tick', j)), (y, ('submit', '1', a, -q)), (y, ('tick', j)),
            (x, ('submit', '1', a, q)), (x, ('tick', j)), (y, ('submit', '1', a, q)), (y, ('tick', j))]
    n = 0
    for m, ev in plan:
        f = m.step(ev, check=True)
        n += len(m.step_txns)
        fails += [dict(g, case=dict(case, kind='two_brokers')) for g in f if g['clause'].startswith('C05.')]
    if n != 4:
        fails.append(dict(bm.fail('C05.no_fill_observed', {'fills': n, 'expected': 4}), case=dict(case, kind='two_brokers')))
    return {'viols': fails[:4], 'execs': 2, 'evals': 4, 'nontrivial': fee[0] != 'zero',
            'outcome': ('two', repr(sorted(case.items(), key=str)))}


def two_broker_items(tier):
    out = []
    for fee in (('zero',), ('pct', '0.001', '0.0025')):
        for tx in (0, 1, 2, 3):
            for ty in (0, 1, 2, 3):
                if tx == ty:
                    continue
                for a in ('A', 'Bq'):
                    for q in ((7, -100) if tier == 'quick' else (1, 7, -100, -333)):
                        for j in ((3,) if tier == 'quick' else OPEN_INSTANTS):
                            out.append({'fee': list(fee), 'tx': tx, 'ty': ty, 'asset': a, 'qty': q, 'instant': j})
    return out


def refit(case):
    """The account's fee model is replaced AFTER portfolios exist (broker.fee_model = other model - the only way to
    change costs on a prepared session): from then on every fill, in old and in new portfolios, is charged by the
    model that is configured when it happens."""
    fx, fy = tuple(case['fee_before']), tuple(case['fee_after'])
    m = bm.BrokerMachine(fx)
    fails, n = [], 0
    for ev in INIT:
        m.step(tuple(ev), check=False)
    a, q, j = case['asset'], case['qty'], case['instant']
    if case['fill_before']:
        m.step(('submit', '1', a, q), check=False)
        f = m.step(('tick', j), check=True)
        n += len(m.step_txns)
        fails += [g for g in f if g['clause'].startswith('C05.')]
    m.broker.fee_model = bm.make_fee(fy)
    m.fee = fy
    plan = [('submit', '1', a, q), ('tick', j), ('create', '3'), ('pf_sub', '3', '200000'), ('submit', '3', a, -q), ('tick', j)]
    for ev in plan:
        f = m.step(ev, check=True)
        if ev[0] == 'tick':
            n += len(m.step_txns)
        fails += [g for g in f if g['clause'].startswith('C05.')]
    want = 2 + (1 if case['fill_before'] else 0)
    if n != want:
        fails.append(bm.fail('C05.no_fill_observed', {'fills': n, 'expected': want}))
    fails = [dict(g, case=dict(case, kind='refit')) for g in fails]
    return {'viols': fails[:4], 'execs': 1, 'evals': n, 'nontrivial': True, 'outcome': ('refit', repr(sorted(case.items(), key=str)))}


def refit_items(tier):
    fs = [('zero',), ('pct', '0.001', '0.005'), ('pct', '0.0025', '0')]
    out = []
    for fx in fs:
        for fy in fs:
            if fx == fy:
                continue
            for a in ('A', 'Bq'):
                for q in (7, -100):
                    for before in (False, True):
                        for j in ((3,) if tier == 'quick' else OPEN_INSTANTS):
                            out.append({'fee_before': list(fx), 'fee_after': list(fy), 'asset': a, 'qty': q, 'instant': j,
                                        'fill_before': before})
    return out


def other_zone(case):
    """the broker is driven with tz-aware timestamps of a non-UTC zone whose wall-clock time lies inside the
    exchange's hours (the exchange reads wall-clock time): the fill must be stamped with exactly that instant"""
    import datetime
    import pandas as pd
    from qstrader.broker.simulated_broker import SimulatedBroker
    from qstrader.exchange.simulated_exchange import SimulatedExchange
    from qstrader.execution.order import Order
    zone, month = case['zone'], case['month']
    t0 = pd.Timestamp(datetime.datetime(2021, month, 14, 9, 0)).tz_localize(zone)
    t1 = pd.Timestamp(datetime.datetime(2021, month, 14, 15, 0)).tz_localize(zone)
    dh = bm.StubDataHandler()
    dh.table = case['table']
    b = SimulatedBroker(t0, SimulatedExchange(t0), dh, initial_funds=1000000.0, fee_model=bm.make_fee(tuple(case['fee'])))
    b.create_portfolio('1')
    b.subscribe_funds_to_portfolio('1', 500000.0)
    seen = []
    port = b.portfolios['1']
    orig = port.transact_asset
    port.transact_asset = lambda txn: (orig(txn), seen.append(txn))[0]
    b.submit_order('1', Order(t0, case['asset'], case['qty'], order_id='z1'))
    b.update(t1)
    fails = []
    c2 = dict(case, kind='zone')
    if len(seen) != 1:
        fails.append(dict(bm.fail('C05.no_fill_observed', {'fills': len(seen), 'zone': zone, 'update': str(t1)}), case=c2))
    for t in seen:
        if t.dt != t1 or t.dt.utcoffset() is None:
            fails.append(dict(bm.fail('C05.timestamp', {'txn_dt': str(t.dt), 'update': str(t1), 'zone': zone}), case=c2))
        q = bm.QUOTES[dh.table][t.asset]
        want = bm.F(q[1] if t.quantity > 0 else q[0])
        if not bm.close(t.price, want):
            fails.append(dict(bm.fail('C05.price_side', {'price': t.price, 'quote': q, 'zone': zone}), case=c2))
    for h in port.history:
        if h.type == 'asset_transaction' and h.dt != t1:
            fails.append(dict(bm.fail('C05.timestamp', {'history_dt': str(h.dt), 'update': str(t1), 'zone': zone}), case=c2))
    return {'viols': fails[:3], 'execs': 1, 'evals': 1, 'nontrivial': True, 'outcome': ('zone', zone, month, case['asset'], case['qty'])}


def zone_items():
    out = []
    for zone in ('Europe/London', 'America/New_York', 'Asia/Tokyo', 'UTC'):
        for month in (1, 7):                       # winter and summer time
            for asset, qty in (('A', 7), ('Bq', -100)):
                out.append({'zone': zone, 'month': month, 'asset': asset, 'qty': qty, 'table': 0, 'fee': ['pct', '0.001', '0.0025']})
    return out


def point(case):
    m, fails, txns = evaluate(case)
    own = [dict(f, case=case) for f in fails if f['clause'].startswith('C05.')]
    oc = tuple((t.asset, t.quantity, t.price, round(t.commission, 9)) for t in txns)
    return {'viols': own, 'outcome': (tuple(case['fee']), oc), 'nontrivial': bool(txns) and case['fee'][0] != 'zero',
            'ambiguous': getattr(m, 'ambiguous', 0),
            'sample': {'fee': case['fee'], 'events': case['history'][len(INIT):],
                       'fills': [[t.asset, t.quantity, t.price, t.commission] for t in txns]}}


def run(tier, res, is_known):
    its = items(tier)
    res.rule = ('full product fee model (zero + 49 percentage pairs from {0,.0000278,.00035,.001,.0025,.5,1}^2) x 4 quote tables '
                '(one crossed, one sub-dollar) x 2 assets x signed quantities x 4 open instants, plus buy+sell '
                'batches; each point = submit + one update on the real broker; non-trivial = a fill under a '
                'percentage model; distinct = distinct (fee, fills) outcome')
    res.bounds = {'points': len(its), 'rates': RATES, 'quantities': qtys(tier), 'instants': OPEN_INSTANTS}
    res.assumptions += [
        "the 'data handler quote' is what get_asset_latest_bid_ask_price returns to the broker (stub with bid != ask)",
        'consideration rounding: nearest integer, both neighbours accepted at an exact tie (counted as boundary_ambiguous)',
    ]
    product(point, its, res, is_known, label='fills', sample_every=997)
    product(two_brokers, two_broker_items(tier), res, is_known, label='two live brokers, alternating')
    product(other_zone, zone_items(), res, is_known, label='update times in other time zones')
    product(refit, refit_items(tier), res, is_known, label='fee model replaced after portfolios exist', chunk=8)


def replay(case):
    if case.get('kind') == 'zone':
        return other_zone({k: v for k, v in case.items() if k != 'kind'})['viols']
    if case.get('kind') == 'two_brokers':
        c = {k: v for k, v in case.items() if k != 'kind'}
        return two_brokers(c)['viols']
    if case.get('kind') == 'refit':
        return refit({k: v for k, v in case.items() if k != 'kind'})['viols']
    _, fails, _ = evaluate(case)
    return [f for f in fails if f['clause'].startswith('C05.')]
