"""C15 - Rejected operations change nothing (fault enumeration at every reachable state)."""
import collections
import queue

import pandas as pd

from .. import brokermachine as bm
from ..core import bfs, product, digest
from ..env import HarnessError

FEE = ('pct', '0.001', '0')
INITIALS = [
    (),
    (('acct_sub', '5000'), ('create', '1'), ('create', '2'), ('pf_sub', '1', '2000'),
     ('pf_sub', '2', '2000'), ('submit', '1', 'A', 5), ('submit', '1', 'Bq', 2), ('submit', '2', 'Bq', -3), ('tick', 2)),
    # portfolio clocks ahead of earlier open instants, nothing held
    (('acct_sub', '5000'), ('create', '1'), ('create', '2'), ('tick', 3), ('pf_sub', '1', '2000'),
     ('pf_sub', '2', '2000')),
]


def alphabet(m):
    evs = [('acct_sub', '1000'), ('create', '1'), ('create', '2')]
    for p in ('1', '2'):
        evs += [('pf_sub', p, '400'), ('pf_wd', p, '50'), ('submit', p, 'A', 3), ('submit', p, 'A', -3)]
    ticks = set()
    if m.clock + 1 < len(bm.INSTANTS):
        ticks.add(m.clock + 1)
    j = bm.next_open(m.clock + 1) if m.clock + 1 < len(bm.INSTANTS) else None
    if j is not None:
        ticks.add(j)
    evs += [('tick', j) for j in sorted(ticks)]
    evs += [('quotes', 1)]
    # money credited to a portfolio directly with a LATER timestamp: the portfolio clock then runs ahead of
    # the broker clock, and broker-level transfers / clock updates in between are refusals of the kind
    # "timestamp earlier than the portfolio's clock"
    if m.clock + 1 < len(bm.INSTANTS):
        for p in m.pfs:
            if m.pfs[p].clock <= m.clock:
                evs.append(('pf_direct_sub', p, '10', m.clock + 1))
            # a price mark given to the portfolio directly with a LATER timestamp: that position's clock then
            # runs ahead of the broker's
            for a, mp in sorted(m.pfs[p].pos.items()):
                if mp.clock <= m.clock:
                    evs.append(('mark_at', p, a, '12.25', m.clock + 1))
    return evs


# ------------------------------------------------------------------------------------------
# observation of everything the statement names
# ------------------------------------------------------------------------------------------
def snapshot(m):
    b = m.broker
    snap = {'cash_balances': dict(b.get_account_cash_balance())}
    for pid in m.pfs:
        port = b.portfolios[pid]
        snap[pid] = {
            'cash': b.get_portfolio_cash_balance(pid),
            'holdings': {a: dict(row) for a, row in b.get_portfolio_as_dict(pid).items()},
            'mv': b.get_portfolio_total_market_value(pid),
            'equity': b.get_portfolio_total_equity(pid),
            'pending': m.pending_impl(pid),
            'history': [(str(h.dt), h.type, h.description, h.debit, h.credit, h.balance) for h in port.history],
        }
    snap['portfolios'] = sorted(b.portfolios.keys())
    snap['queues'] = sorted(b.open_orders.keys())
    return snap


def snap_diff(a, b):
    out = []
    for k in sorted(set(a) | set(b), key=str):
        if a.get(k) != b.get(k):
            if isinstance(a.get(k), dict) and isinstance(b.get(k), dict):
                for kk in sorted(set(a[k]) | set(b[k]), key=str):
                    if a[k].get(kk) != b[k].get(kk):
                        out.append('%s.%s' % (k, kk))
            else:
                out.append(str(k))
    return out


def deep(o, depth=0, memo=None):
    """Generic structural fingerprint of the live objects (no attribute names assumed)."""
    if memo is None:
        memo = set()
    if depth > 12:
        return '...'
    if isinstance(o, (str, int, bool, type(None))):
        return o
    if isinstance(o, float):
        return repr(o)
    if isinstance(o, (pd.Timestamp,)):
        return str(o)
    if isinstance(o, queue.Queue):
        return ('Q', tuple(deep(x, depth + 1, memo) for x in list(o.queue)))
    if isinstance(o, dict):
        return ('D', tuple((str(k), deep(v, depth + 1, memo)) for k, v in o.items()))
    if isinstance(o, (list, tuple, collections.deque)):
        return ('L', tuple(deep(x, depth + 1, memo) for x in o))
    if hasattr(o, '__dict__'):
        mod = type(o).__module__ or ''
        if not mod.startswith('qstrader'):
            return ('O', type(o).__name__)
        if id(o) in memo:
            return ('R', type(o).__name__)
        memo.add(id(o))
        return ('O', type(o).__name__, tuple((k, deep(v, depth + 1, memo)) for k, v in sorted(vars(o).items())
                                             if k not in ('logger', 'data_handler', 'exchange')))
    try:
        return repr(float(o))
    except Exception:
        return ('X', type(o).__name__)


# ------------------------------------------------------------------------------------------
# the fault menu: every kind of refusal the statement lists
# ------------------------------------------------------------------------------------------
def faults(m):
    """[(name, thunk, expected exception type, must_raise)] for the state of machine m."""
    from qstrader.broker.transaction.transaction import Transaction
    from qstrader.execution.order import Order
    b = m.broker
    out = []
    master = b.get_account_cash_balance(b.base_currency)
    pids = list(m.pfs.keys())
    for neg in (-5.0, -0.004, -1e-9):      # also negatives below half a cent: no rounding may let them through
        out.append(('acct_sub(negative %g)' % neg, lambda neg=neg: b.subscribe_funds_to_account(neg), ValueError, True))
        out.append(('acct_wd(negative %g)' % neg, lambda neg=neg: b.withdraw_funds_from_account(neg), ValueError, True))
    out.append(('acct_wd(excess)', lambda: b.withdraw_funds_from_account(master + 0.01), ValueError, True))
    # the smallest excess a float can express next to the balance: no tolerance window may accept it
    tiny = max(abs(master), 1.0) * 1e-12 + 1e-9
    out.append(('acct_wd(excess by an epsilon)', lambda: b.withdraw_funds_from_account(master + tiny), ValueError, True))
    out.append(('get_account_cash_balance(XYZ)', lambda: b.get_account_cash_balance('XYZ'), ValueError, True))
    for unknown in ('zz',):
        out.append(('pf_sub(unknown id)', lambda: b.subscribe_funds_to_portfolio(unknown, 1.0), KeyError, True))
        out.append(('pf_wd(unknown id)', lambda: b.withdraw_funds_from_portfolio(unknown, 1.0), KeyError, True))
        out.append(('submit(unknown id)',
                    lambda: b.submit_order(unknown, Order(m.now(), 'A', 1, order_id='bad')), KeyError, True))
        out.append(('get_portfolio_cash_balance(unknown id)',
                    lambda: b.get_portfolio_cash_balance(unknown), ValueError, True))
        out.append(('get_portfolio_total_market_value(unknown id)',
                    lambda: b.get_portfolio_total_market_value(unknown), KeyError, True))
        out.append(('get_portfolio_total_equity(unknown id)',
                    lambda: b.get_portfolio_total_equity(unknown), KeyError, True))
        out.append(('get_portfolio_as_dict(unknown id)',
                    lambda: b.get_portfolio_as_dict(unknown), KeyError, True))
    for pid in pids:
        port = b.portfolios[pid]
        pclock = port.current_dt
        earlier = pclock - pd.Timedelta(seconds=1)
        cash = port.cash
        out.append(('create(duplicate)', lambda pid=pid: b.create_portfolio(pid), ValueError, True))
        for neg in (-5.0, -0.004):
            out.append(('pf_sub(negative %g)' % neg, lambda pid=pid, neg=neg: b.subscribe_funds_to_portfolio(pid, neg),
                        ValueError, True))
            out.append(('pf_wd(negative %g)' % neg, lambda pid=pid, neg=neg: b.withdraw_funds_from_portfolio(pid, neg),
                        ValueError, True))
        out.append(('pf_sub(excess of master cash)',
                    lambda pid=pid: b.subscribe_funds_to_portfolio(pid, master + 0.01), ValueError, True))
        out.append(('pf_sub(excess of master cash by an epsilon)',
                    lambda pid=pid: b.subscribe_funds_to_portfolio(pid, master + tiny), ValueError, True))
        out.append(('pf_wd(excess of portfolio cash by an epsilon)',
                    lambda pid=pid, cash=cash: b.withdraw_funds_from_portfolio(
                        pid, max(cash, 0.0) + max(abs(cash), 1.0) * 1e-12 + 1e-9), ValueError, True))
        out.append(('pf_wd(excess of portfolio cash)',
                    lambda pid=pid, cash=cash: b.withdraw_funds_from_portfolio(pid, max(cash, 0.0) + 0.01),
                    ValueError, True))
        for neg in (-5.0, -0.004):
            out.append(('Portfolio.subscribe_funds(negative %g)' % neg,
                        lambda port=port, t=pclock, neg=neg: port.subscribe_funds(t, neg), ValueError, True))
            out.append(('Portfolio.withdraw_funds(negative %g)' % neg,
                        lambda port=port, t=pclock, neg=neg: port.withdraw_funds(t, neg), ValueError, True))
        out.append(('Portfolio.withdraw_funds(excess)',
                    lambda port=port, t=pclock, cash=cash: port.withdraw_funds(t, max(cash, 0.0) + 0.01),
                    ValueError, True))
        # the same refusals stamped LATER than the portfolio clock: a refused request must not advance the clock
        # either (a later, valid request at the broker's time would then be refused)
        later = max(pclock, m.now()) + pd.Timedelta(hours=1)
        out.append(('Portfolio.subscribe_funds(later dt, negative)',
                    lambda port=port, t=later: port.subscribe_funds(t, -5.0), ValueError, True))
        out.append(('Portfolio.withdraw_funds(later dt, negative)',
                    lambda port=port, t=later: port.withdraw_funds(t, -5.0), ValueError, True))
        out.append(('Portfolio.withdraw_funds(later dt, excess)',
                    lambda port=port, t=later, cash=cash: port.withdraw_funds(t, max(cash, 0.0) + 0.01), ValueError, True))
        ahead = earlier.tz_convert('Asia/Tokyo')      # the same earlier instant; its wall-clock reading is LATER
        out.append(('Portfolio.subscribe_funds(earlier dt, other zone)',
                    lambda port=port, t=ahead: port.subscribe_funds(t, 10.0), ValueError, True))
        out.append(('Portfolio.withdraw_funds(earlier dt, other zone)',
                    lambda port=port, t=ahead: port.withdraw_funds(t, 0.01), ValueError, True))
        out.append(('Portfolio.transact_asset(earlier dt, other zone)',
                    lambda port=port, t=ahead: port.transact_asset(Transaction('A', 1, t, 10.0, 'bad', commission=0.5)),
                    ValueError, True))
        # earlier instants of a round kind: midnight of the clock's own day (a date-only timestamp), the top of its hour,
        # and the day before - "earlier" is a comparison of instants, whatever the fields look like
        for label, t_e in (('midnight of the clock day', pclock.normalize()), ('top of the clock hour', pclock.floor('h')),
                           ('midnight of the day before', pclock.normalize() - pd.Timedelta(days=1))):
            if t_e < pclock:
                out.append(('Portfolio.subscribe_funds(earlier dt: %s)' % label,
                            lambda port=port, t=t_e: port.subscribe_funds(t, 10.0), ValueError, True))
                out.append(('Portfolio.withdraw_funds(earlier dt: %s)' % label,
                            lambda port=port, t=t_e: port.withdraw_funds(t, 0.01), ValueError, True))
                out.append(('Portfolio.transact_asset(earlier dt: %s)' % label,
                            lambda port=port, t=t_e: port.transact_asset(Transaction('A', 1, t, 10.0, 'bad', commission=0.5)),
                            ValueError, True))
        out.append(('Portfolio.subscribe_funds(earlier dt)',
                    lambda port=port, t=earlier: port.subscribe_funds(t, 10.0), ValueError, True))
        out.append(('Portfolio.withdraw_funds(earlier dt)',
                    lambda port=port, t=earlier: port.withdraw_funds(t, 0.01), ValueError, True))
        out.append(('Portfolio.transact_asset(earlier dt)',
                    lambda port=port, t=earlier: port.transact_asset(Transaction('A', 1, t, 10.0, 'bad', commission=0.5)),
                    ValueError, True))
        for asset in list(b.get_portfolio_as_dict(pid).keys()):
            # a fill the POSITION refuses (its own clock is ahead of the portfolio's after a future-stamped mark; or a
            # non-positive price): refused requests of the portfolio like any other
            mp = m.pfs[pid].pos.get(asset)
            if mp is not None and mp.clock > m.pfs[pid].clock:
                mid = bm.INSTANTS[mp.clock] - pd.Timedelta(seconds=1)
                if mid >= pclock:
                    out.append(('Portfolio.transact_asset(earlier than the position clock)',
                                lambda port=port, a=asset, t=mid: port.transact_asset(Transaction(a, 2, t, 10.0, 'bad', commission=0.5)),
                                ValueError, True))
            out.append(('Portfolio.transact_asset(non-positive price)',
                        lambda port=port, a=asset, t=max(pclock, bm.INSTANTS[mp.clock] if mp is not None else pclock):
                        port.transact_asset(Transaction(a, 2, t, 0.0, 'bad', commission=0.5)), ValueError, True))
            out.append(('Portfolio.update_market_value_of_asset(earlier dt)',
                        lambda port=port, a=asset, t=earlier: port.update_market_value_of_asset(a, 10.0, t),
                        ValueError, True))
            out.append(('Portfolio.update_market_value_of_asset(negative price)',
                        lambda port=port, a=asset, t=pclock: port.update_market_value_of_asset(a, -1.0, t),
                        ValueError, True))
    # a broker clock update to an earlier instant: the contract documents no refusal, so it is
    # only held to "if refused, nothing changed" (both quote tables, so re-marking is visible)
    latest = max([m.clock] + [p.clock for p in m.pfs.values()] + [mp.clock for p in m.pfs.values() for mp in p.pos.values()])
    for k in range(0, latest):
        for tab in (0, 1):
            def thunk(k=k, tab=tab):
                m.dh.table = tab
                b.update(bm.INSTANTS[k])
            out.append(('broker.update(earlier dt)', thunk, ValueError, False))
    return out


def fault_checks(hist):
    hist = tuple(tuple(e) for e in hist)
    m0, _ = bm.build(FEE, hist)
    menu = faults(m0)
    viols = []
    n_raised = 0
    kinds = set()
    for idx in range(len(menu)):
        m, _ = bm.build(FEE, hist)
        f = faults(m)[idx]
        v = one_fault(m, hist, idx, f)
        if v is None:
            continue
        raised, fails = v
        n_raised += raised
        if raised:
            kinds.add(f[0])
        viols.extend(fails)
    return {'viols': viols, 'execs': len(menu), 'evals': len(menu), 'nontrivial': n_raised > 0,
            'outcome': digest((hist, n_raised)), 'sets': {'fault_kinds_refused': kinds},
            'counters': {'faults_injected': len(menu), 'faults_refused': n_raised},
            'sample': {'history': [list(e) for e in hist], 'faults': len(menu), 'refused': n_raised}}


def one_fault(m, hist, idx, f):
    name, thunk, exc_type, must_raise = f
    case = {'harness': 'fault', 'history': [list(e) for e in hist], 'fault_index': idx, 'fault': name}
    table0 = m.dh.table
    before = snapshot(m)
    deep_before = deep(m.broker)
    try:
        thunk()
        got = None
    except HarnessError:
        raise
    except Exception as e:  # noqa
        got = e
    fails = []
    if got is None:
        if must_raise:
            fails.append({'clause': 'C15.silent_acceptance', 'signature': name, 'case': case,
                          'detail': {'fault': name, 'history': case['history']}})
        return 0, fails
    if not isinstance(got, exc_type):      # a more specific subclass of the documented type is the documented type
        fails.append({'clause': 'C15.error_type', 'signature': name, 'case': case,
                      'detail': {'fault': name, 'got': repr(got), 'expected': exc_type.__name__}})
    m.dh.table = table0
    after = snapshot(m)
    if after != before:
        d = snap_diff(before, after)
        kinds = sorted(set(x.split('.')[-1] for x in d))
        fails.append({'clause': 'C15.state_changed', 'signature': '%s:%s' % (name, ','.join(kinds)), 'case': case,
                      'detail': {'fault': name, 'error': repr(got), 'changed': d}})
        return 1, fails
    if deep(m.broker) != deep_before:
        # latent difference in private state: does it surface through the named observables
        # after one more valid request?  (one-step differential, no expected value needed)
        for ev in alphabet(m):
            m1, _ = bm.build(FEE, hist)
            m1.step(ev, check=False)
            want = snapshot(m1)
            m2, _ = bm.build(FEE, hist)
            try:
                faults(m2)[idx][1]()
            except Exception:  # noqa
                pass
            m2.dh.table = table0
            try:
                m2.step(ev, check=False)
                got2 = snapshot(m2)
            except HarnessError:
                raise
            if got2 != want:
                fails.append({'clause': 'C15.latent_damage', 'signature': '%s->%s' % (name, ev[0]),
                              'case': dict(case, then=list(ev)),
                              'detail': {'fault': name, 'then': list(ev), 'changed': snap_diff(want, got2)}})
                break
    return 1, fails


def run(tier, res, is_known):
    depth = 4 if tier == 'quick' else 5
    res.rule = ('BFS over valid broker histories builds the reachable state set; at every state every fault of the '
                'menu (negative / excess amounts, unknown / duplicate ids, unsupported currency, earlier timestamps, '
                'negative price mark, broker.update back in time) is injected on a fresh rebuild and the full '
                'snapshot (cash, holdings, pending orders, history) is compared before/after; non-trivial = state '
                'in which at least one fault was refused; distinct = state')
    res.bounds = {'valid_depth': {'empty': depth, 'pre-built states': depth - 1}, 'faults_per_path': 1,
                  'initial_states': len(INITIALS)}
    res.assumptions += [
        'private clocks are not compared (the statement does not list them); faults use dt = portfolio clock so a '
        'refused call cannot drift it; latent private differences are judged by a one-step differential',
        'broker.update(earlier) documents no refusal: only held to "if refused, nothing changed"',
        'error types as pinned by the unit tests (ValueError / KeyError)',
    ]
    states = {}
    for i, init in enumerate(INITIALS):
        spec = bm.BrokerSpec('C15', FEE, [init], alphabet)
        # the empty initial state needs one more step than the pre-built ones to reach comparable states
        seen = bfs(spec, depth if i == 0 else depth - 1, res, is_known, label='valid spine init=%d' % i)
        for k, h in seen.items():
            states.setdefault(k, h)
    if any(not is_known(v) for v in res.violations):
        return
    hists = sorted(states.values())
    product(fault_checks, hists, res, is_known, label='fault injection', sample_every=211)
    # constructing a broker in an unsupported currency is refused (stateless); other spellings of a supported code
    # ('usd', 'Gbp') are either refused or accepted CONSISTENTLY - never half of each
    for code in CTOR_CODES:
        for f in ctor_check(code):
            res.add_violation(dict(f, case={'harness': 'ctor', 'code': code}))


CTOR_CODES = ['XYZ', 'xyz', '', 'usd', 'Gbp', 'eur', 'USD ', 'UsD']


def ctor_check(code):
    from qstrader.broker.simulated_broker import SimulatedBroker
    from qstrader.exchange.simulated_exchange import SimulatedExchange
    sig = 'SimulatedBroker(base_currency=%r)' % code
    supported_spelling = code.strip().upper() in ('USD', 'GBP', 'EUR') and code not in ('USD', 'GBP', 'EUR')
    try:
        b = SimulatedBroker(bm.INSTANTS[0], SimulatedExchange(bm.INSTANTS[0]), bm.StubDataHandler(), base_currency=code,
                            initial_funds=1000.0)
    except ValueError:
        b = None
    except Exception as e:  # noqa
        return [{'clause': 'C15.error_type', 'signature': sig, 'detail': repr(e)}]
    fails = []
    if b is not None:
        if not supported_spelling:
            return [{'clause': 'C15.silent_acceptance', 'signature': sig, 'detail': 'unsupported currency accepted'}]
        # accepted: then it must BE an account in that currency - the funds are where the getters look for them
        try:
            b.subscribe_funds_to_account(5.0)
            own = b.get_account_cash_balance(b.base_currency)
            table = dict(b.get_account_cash_balance())
            given = b.get_account_cash_balance(code)
            ok = own == 1005.0 and given == 1005.0 and sum(table.values()) == 1005.0
            if not ok:
                fails.append({'clause': 'C15.silent_acceptance', 'signature': sig,
                              'detail': {'accepted_but': 'the funds are not where the getters look', 'balance(base_currency)': own,
                                         'balance(code as given)': given, 'table': {str(k): v for k, v in table.items()}}})
        except Exception as e:  # noqa
            fails.append({'clause': 'C15.silent_acceptance', 'signature': sig,
                          'detail': {'accepted_but': 'the account does not work', 'error': repr(e)}})
    # the getter on an ordinary USD account: refuse the spelling or answer as for the code it spells
    u = SimulatedBroker(bm.INSTANTS[0], SimulatedExchange(bm.INSTANTS[0]), bm.StubDataHandler(), initial_funds=1000.0)
    try:
        v = u.get_account_cash_balance(code)
        want = u.get_account_cash_balance(code.strip().upper()) if supported_spelling else None
        if not supported_spelling or v != want:
            fails.append({'clause': 'C15.silent_acceptance', 'signature': 'get_account_cash_balance(%r)' % code,
                          'detail': {'returned': repr(v), 'balance of the code it spells': want}})
    except ValueError:
        pass
    except Exception as e:  # noqa
        fails.append({'clause': 'C15.error_type', 'signature': 'get_account_cash_balance(%r)' % code, 'detail': repr(e)})
    return fails


def replay(case):
    if case['harness'] == 'broker':
        return bm.replay_broker(case, 'C15.')
    if case['harness'] == 'ctor':
        return ctor_check(case.get('code', 'XYZ'))
    hist = tuple(tuple(e) for e in case['history'])
    m, _ = bm.build(FEE, hist)
    menu = faults(m)
    idx = case['fault_index']
    if idx >= len(menu) or menu[idx][0] != case['fault']:
        cands = [i for i, f in enumerate(menu) if f[0] == case['fault']]
        out = []
        for i in cands:
            m, _ = bm.build(FEE, hist)
            r = one_fault(m, hist, i, faults(m)[i])
            out.extend(r[1] if r else [])
        return out
    r = one_fault(m, hist, idx, menu[idx])
    return r[1] if r else []


def minimise(case, clause):
    if case['harness'] != 'fault':
        return case
    hist = [list(e) for e in case['history']]
    i = 0
    while i < len(hist):
        trial = hist[:i] + hist[i + 1:]
        c2 = dict(case, history=trial, fault_index=-1)
        try:
            ok = any(f['clause'] == clause for f in replay(c2))
        except Exception:  # noqa
            ok = False
        if ok:
            hist = trial
        else:
            i += 1
    return dict(case, history=hist, fault_index=-1)
