"""C07 - Backtest results up to any date do not depend on later market data (pairs of complete runs)."""
import copy
import datetime
import itertools
import shutil
from fractions import Fraction

from .. import market as mk
from .. import refmodel as rm
from .. import sessionlab as sl
from ..core import product
from ..env import scratch_dir

DAYS = rm.bdays(datetime.date(2020, 2, 24), datetime.date(2020, 3, 5))          # 9 business days
PRE = rm.bdays(datetime.date(2020, 2, 17), datetime.date(2020, 2, 21))          # history before the start
ALL_DAYS = PRE + DAYS
CUTS = list(rm.daterange(datetime.date(2020, 2, 23), datetime.date(2020, 3, 5)))  # incl. weekend days
ASSETS = ['EQ:AAA', 'EQ:BBB', 'EQ:CCC']
REWRITES = ['remove', 'x3', 'x0.25', 'blank', 'const', 'reverse']

MARKETS = {
    'm0': {'AAA': ('rising', '41.37'), 'BBB': ('zigzag', '103.11'), 'CCC': ('falling', '17.93')},
    'm1': {'AAA': ('gapdown', '41.37'), 'BBB': ('rising', '103.11'), 'CCC': ('zigzag', '17.93')},
    'late': {'AAA': ('rising', '41.37'), 'BBB': ('falling', '103.11'), 'CCC': ('zigzag', '17.93', len(PRE) + 3)},
    'hole': {'AAA': ('zigzag', '41.37'), 'BBB': ('gapdown', '103.11'), 'CCC': ('rising', '17.93')},
    'm4': {'AAA': ('falling', '41.37'), 'BBB': ('falling', '103.11'), 'CCC': ('gapdown', '17.93')},
    # business days without a row (exchange holiday / data gap) after the asset's data have begun
    'gap': {'AAA': ('zigzag', '41.37'), 'BBB': ('rising', '103.11'), 'CCC': ('falling', '17.93')},
    # rows exist from the first day but their price cells are blank until the asset's first quote
    'blankstart': {'AAA': ('falling', '41.37'), 'BBB': ('zigzag', '103.11'), 'CCC': ('rising', '17.93')},
    # bars with zero traded volume (halted / illiquid days) are bars like any other
    'zerovol': {'AAA': ('rising', '41.37'), 'BBB': ('gapdown', '103.11'), 'CCC': ('zigzag', '17.93')},
    # an exchange holiday on the business month end (Fri 28 Feb): no asset has a bar that day, all have bars after it
    'holiday': {'AAA': ('rising', '41.37'), 'BBB': ('zigzag', '103.11'), 'CCC': ('gapdown', '17.93')},
    # files whose Adj Close differs from Close by a ratio that changes from row to row and is not 1 on the last row
    # (dividends / splits still to come at the time of each bar): adjusted prices of a day depend on that day's row only
    'adjusted': {'AAA': ('zigzag', '41.37'), 'BBB': ('rising', '103.11'), 'CCC': ('gapdown', '17.93')},
    # a second data source (listed after the first) carries AAA at other prices and with a LONGER file
    'twosrc': {'AAA': ('rising', '41.37'), 'BBB': ('zigzag', '103.11'), 'CCC': ('falling', '17.93'),
               'AAA@2': ('falling', '77.77'), 'CCC@2': ('rising', '55.05')},
}


def base_market(name):
    m = sl.make_market(ALL_DAYS, MARKETS[name])
    if name == 'hole':
        rows = m['BBB']
        i = len(PRE) + 4
        rows[i] = (rows[i][0], None, rows[i][2])         # a missing open
        rows2 = m['CCC']
        rows2[i + 1] = (rows2[i + 1][0], rows2[i + 1][1], None)   # a missing close
    if name == 'holiday':
        hol = datetime.date(2020, 2, 28)
        for sym in list(m):
            m[sym] = [r for r in m[sym] if r[0] != hol]
    if name == 'twosrc':
        # the first source's AAA file stops three days before the window ends; the second source's goes on
        m['AAA'] = m['AAA'][:-3]
    if name == 'zerovol':
        k = len(PRE)
        m['BBB'] = [(d, o, c, 0 if k + 2 <= i <= k + 4 else 1000) for i, (d, o, c) in enumerate(m['BBB'])]
        m['AAA'] = [(d, o, c, 0 if i in (k + 1, k + 6) else 1000) for i, (d, o, c) in enumerate(m['AAA'])]
    if name == 'adjusted':
        for j, sym in enumerate(sorted(m)):
            m[sym] = [(d, o, c, 1000, Fraction(50 + 3 * j + i, 100)) for i, (d, o, c) in enumerate(m[sym])]
    if name == 'blankstart':
        k = len(PRE) + 4
        m['CCC'] = [(d, None, None) if i < k else (d, o, c) for i, (d, o, c) in enumerate(m['CCC'])]
    if name == 'gap':
        i = len(PRE)
        # same first row, last row and row count for AAA and BBB, but different missing days; CCC misses three
        m['BBB'] = [r for k, r in enumerate(m['BBB']) if k not in (i + 2, i + 6)]
        m['AAA'] = [r for k, r in enumerate(m['AAA']) if k not in (i + 3, i + 5)]
        m['CCC'] = [r for k, r in enumerate(m['CCC']) if k not in (i + 1, i + 2, i + 7)]
    return m


def rewrite(market, cut, how):
    out = {}
    for sym, rows in market.items():
        past = [r for r in rows if r[0] <= cut]
        fut = [r for r in rows if r[0] > cut]
        h = how
        if h == 'remove' and not past:
            h = 'x3'            # an empty CSV is not a market: use other arbitrary values instead
        if h == 'remove':
            fut = []
        elif h in ('x3', 'x0.25'):
            k = Fraction(3) if h == 'x3' else Fraction(1, 4)
            fut = [(r[0], None if r[1] is None else r[1] * k, None if r[2] is None else r[2] * k) + tuple(r[3:]) for r in fut]
        elif h == 'blank':
            fut = [(r[0], None, None) + tuple(r[3:]) for r in fut]
        elif h == 'const':
            fut = [(r[0], Fraction(1), Fraction(1)) + tuple(r[3:]) for r in fut]
        elif h == 'reverse':
            vals = [(r[1], r[2]) for r in fut][::-1]
            fut = [(r[0], v[1], v[0]) + tuple(r[3:]) for r, v in zip(fut, vals)]
        out[sym] = past + fut
    return out


def configs(tier):
    alphas = [{'kind': 'fixed', 'weights': {'EQ:AAA': 0.5, 'EQ:BBB': 0.3, 'EQ:CCC': 0.2}},
              {'kind': 'single', 'signal': 1.0},
              {'kind': 'mom_top1', 'lookback': 2},
              {'kind': 'sma_trend', 'fast': 2, 'slow': 4},
              {'kind': 'inv_vol', 'lookback': 3}]
    start = rm.utc(DAYS[0], 14, 30)
    end = rm.utc(DAYS[-1], 23, 59)
    before = (start - datetime.timedelta(days=4)).isoformat()
    universes = [{'kind': 'static'},
                 {'kind': 'dynamic', 'entries': {'EQ:AAA': before, 'EQ:BBB': before,
                                                 'EQ:CCC': rm.utc(DAYS[2], 0, 0).isoformat()}}]
    rebs = [('daily', None), ('weekly', 'WED'), ('weekly', 'FRI'), ('end_of_month', None), ('buy_and_hold', None)]
    sizings = [(True, 0.05), (False, 1.5)]
    fees = [['zero'], ['pct', '0.001', '0.0005']]
    burns = [None, rm.utc(DAYS[2], 14, 30).isoformat()]
    if tier == 'quick':
        fees = fees[1:]
    out = []
    for alpha, uni, (kind, wd), (lo, par), fee, burn in itertools.product(alphas, universes, rebs, sizings, fees, burns):
        if tier == 'quick':
            # quick: every value of every dimension appears, pairs thinned deterministically
            h = (alphas.index(alpha) + 2 * universes.index(uni) + rebs.index((kind, wd)) + 3 * sizings.index((lo, par))
                 + burns.index(burn))
            if h % 3 != 0:
                continue
        a = dict(alpha)
        if a['kind'] == 'fixed' and not lo:
            a = {'kind': 'fixed', 'weights': {'EQ:AAA': 0.5, 'EQ:BBB': -0.3, 'EQ:CCC': 0.2}}
        cfg = {'start': start.isoformat(), 'end': end.isoformat(), 'burn_in': burn, 'assets': ASSETS, 'universe': uni,
               'alpha': a, 'rebalance': kind, 'weekday': wd, 'long_only': lo, 'fee': fee, 'cash': 100007.31}
        cfg['buffer' if lo else 'leverage'] = par
        out.append(cfg)
    return out


def prefix(obs, cut):
    """Everything dated on or before the cut day, with bit-exact float representations."""
    def d(ts):
        return rm.to_py(ts).date()
    fills = tuple((str(f[0]), f[1], repr(float(f[2])), repr(float(f[3])), repr(float(f[4]))) for f in obs.fills
                  if d(f[0]) <= cut)
    eq = tuple((str(t), repr(float(v))) for t, v in obs.equity if d(t) <= cut)
    al = tuple(tuple((k, str(v) if k == 'Date' else repr(float(v))) for k, v in a.items()) for a in obs.allocs
               if d(a['Date']) <= cut)
    hist = tuple((str(h[0]), h[1], h[2], repr(h[3]), repr(h[4]), repr(h[5])) for h in obs.history if d(h[0]) <= cut)
    err = None
    if obs.error is not None:
        when = obs.error[2]
        try:
            import pandas as pd
            if rm.to_py(pd.Timestamp(when)).date() <= cut:
                err = obs.error
        except Exception:  # noqa
            err = obs.error
    return {'fills': fills, 'equity': eq, 'allocations': al, 'history': hist, 'error': err}


def run_world(cfg, market, directory):
    import os
    for f in os.listdir(directory):
        pth = os.path.join(directory, f)
        if os.path.isdir(pth):
            shutil.rmtree(pth, ignore_errors=True)
        else:
            os.unlink(pth)
    sl.write_market(directory, market)
    handler, _ = sl.load_handler(directory, market)
    return handler


def item_eval(item):
    name, how, cfgs, cuts = item['market'], item['rewrite'], item['cfgs'], item['cuts']
    d0 = scratch_dir('qsc07w-')
    d = scratch_dir('qsc07-')
    viols, n, differing, errors = [], 0, 0, 0
    try:
        market = base_market(name)
        handler = run_world(None, market, d0)      # the full world keeps its own directory
        base = [sl.run_session(cfg, handler) for cfg in cfgs]
        mk.clear_caches()
        # the first session of a pair starts two days later than the second: the second one asks for instants the
        # shared handler has not been asked before, earlier than the last ones it was asked
        later = rm.utc(DAYS[2], 14, 30).isoformat()
        pairs = [(dict(cfgs[k], start=later, burn_in=None), cfgs[k + 1]) for k in range(0, min(len(cfgs) - 1, 4), 2)]
        pair_cuts = set(cuts[2::4])
        for cut_s in cuts:
            cut = datetime.date.fromisoformat(cut_s)
            m2 = rewrite(market, cut, how)
            shutil.rmtree(d, ignore_errors=True)
            d = scratch_dir('qsc07-')                # a new directory for every rewritten world
            handler2 = run_world(None, m2, d)
            for cfg, w in zip(cfgs, base):
                w2 = sl.run_session(cfg, handler2)
                n += 1
                a, b = prefix(w, cut), prefix(w2, cut)
                if w.error is not None:
                    errors += 1
                if w.digest_parts() != w2.digest_parts():
                    differing += 1          # the rewrite really changed something after the cut
                if a != b:
                    keys = [k for k in a if a[k] != b[k]]
                    first = {}
                    for k in keys:
                        if k == 'error':
                            first[k] = {'world': a[k], 'rewritten': b[k]}
                        else:
                            i = next((i for i, (x, y) in enumerate(zip(a[k], b[k])) if x != y), min(len(a[k]), len(b[k])))
                            first[k] = {'world': a[k][i:i + 1], 'rewritten': b[k][i:i + 1]}
                    viols.append({'clause': 'C07.depends_on_future_data',
                                  'signature': keys[0],
                                  'detail': {'market': name, 'cut': cut_s, 'rewrite': how, 'differs_in': keys, 'first': first,
                                             'alpha': cfg['alpha']['kind'], 'rebalance': cfg['rebalance']},
                                  'case': {'market': name, 'cut': cut_s, 'rewrite': how, 'cfg': cfg}})
                    if len(viols) > 5:
                        break
            mk.clear_caches()
            if len(viols) > 5:
                break
            # two sessions in a row on ONE handler (a strategy, then its benchmark - the data handler is shared): what
            # the second one does up to T must not depend on data after T either, whatever the first one looked up
            if cut_s in pair_cuts and not viols:
                for ca, cb in pairs:
                    outs = []
                    for hdl in (handler, handler2):
                        h = copy.deepcopy(hdl)
                        sl.run_session(ca, h, fresh=False)
                        outs.append(sl.run_session(cb, h, fresh=False))
                    n += 1
                    a, b = prefix(outs[0], cut), prefix(outs[1], cut)
                    if a != b:
                        keys = [k for k in a if a[k] != b[k]]
                        viols.append({'clause': 'C07.depends_on_future_data', 'signature': 'second-session:' + keys[0],
                                      'detail': {'market': name, 'cut': cut_s, 'rewrite': how, 'differs_in': keys,
                                                 'second_session_on_a_shared_handler': cb['rebalance'],
                                                 'first_session': ca['rebalance']},
                                      'case': {'market': name, 'cut': cut_s, 'rewrite': how, 'cfg': cb, 'after_cfg': ca}})
                        break
                mk.clear_caches()
    finally:
        mk.clear_caches()
        shutil.rmtree(d, ignore_errors=True)
        shutil.rmtree(d0, ignore_errors=True)
    return {'viols': viols[:6], 'execs': n + len(cfgs), 'evals': n, 'nontrivial': differing > 0,
            'outcome': (name, how, item['chunk']),
            'counters': {'world_pairs': n, 'pairs_where_rewrite_changed_the_future': differing,
                         'pairs_where_base_world_fails': errors},
            'sample': {'market': name, 'rewrite': how, 'pairs': n, 'future_changed_in': differing,
                       'first_cfg': cfgs[0] if cfgs else None}}


def items(tier):
    cfgs = configs(tier)
    markets = ['m0', 'late', 'hole', 'gap', 'blankstart', 'zerovol', 'twosrc', 'holiday', 'adjusted'] if tier == 'quick' else list(MARKETS)
    rewrites = ['remove', 'reverse', 'blank'] if tier == 'quick' else REWRITES
    cuts = [c.isoformat() for c in CUTS]
    size = 10 if tier == 'quick' else 25
    out = []
    for m in markets:
        for how in rewrites:
            for i in range(0, len(cfgs), size):
                out.append({'market': m, 'rewrite': how, 'cfgs': cfgs[i:i + size], 'cuts': cuts, 'chunk': i})
    return out


def run(tier, res, is_known):
    its = items(tier)
    ncfg = len(configs(tier))
    res.rule = ('for every (market, configuration) the real session is run on the full data (world W) and on every rewritten '
                'world W\' = (cut day T in the window incl. weekend days) x (future rows removed / x3 / x0.25 / blanked / '
                'constant / reversed); fills, history, equity points and target allocations dated <= T must be bit-identical, '
                'and a failure at a time <= T must be the same failure; non-trivial = item in which the rewrite changed '
                'something after the cut; configurations: alpha {fixed, single-signal, momentum top-1, SMA trend, inverse vol} x '
                'universe {static, dynamic} x 5 rebalance kinds x sizing x fee x burn-in')
    res.bounds = {'configurations': ncfg, 'cuts': len(CUTS), 'items': len(its),
                  'thinning': 'quick keeps every value of every dimension and one third of the combinations; thorough is the full product'}
    res.assumptions += ['bit-for-bit comparison between two runs of the same code in the same interpreter',
                        'when removal would leave a file without rows the future of that file is multiplied by 3 instead']
    if tier == 'quick':
        res.exhaustive = True
    product(item_eval, its, res, is_known, label='world pairs', chunk=1)
    res.states = res.extra.get('world_pairs', 0)
    res.transitions = res.states


def replay(case):
    d = scratch_dir('qsc07r-')
    d2 = scratch_dir('qsc07r2-')
    try:
        market = base_market(case['market'])
        h = run_world(None, market, d)
        cut = datetime.date.fromisoformat(case['cut'])
        if case.get('after_cfg'):
            hh = copy.deepcopy(h)
            sl.run_session(case['after_cfg'], hh, fresh=False)
            w = sl.run_session(case['cfg'], hh, fresh=False)
        else:
            w = sl.run_session(case['cfg'], h)
        mk.clear_caches()
        h2 = run_world(None, rewrite(market, cut, case['rewrite']), d2)
        if case.get('after_cfg'):
            hh2 = copy.deepcopy(h2)
            sl.run_session(case['after_cfg'], hh2, fresh=False)
            w2 = sl.run_session(case['cfg'], hh2, fresh=False)
        else:
            w2 = sl.run_session(case['cfg'], h2)
        a, b = prefix(w, cut), prefix(w2, cut)
        if a != b:
            keys = [k for k in a if a[k] != b[k]]
            return [{'clause': 'C07.depends_on_future_data', 'signature': keys[0], 'detail': {'differs_in': keys}}]
        return []
    finally:
        mk.clear_caches()
        shutil.rmtree(d, ignore_errors=True)
        shutil.rmtree(d2, ignore_errors=True)
