"""C04 - Orders fill exactly once, in full, only in exchange hours, sells first."""
from .. import brokermachine as bm
from ..core import bfs

FEE = ('pct', '0.001', '0')
INIT = (('acct_sub', '20000'), ('create', '1'), ('create', '2'),
        ('pf_sub', '1', '5000'), ('pf_sub', '2', '5000'))


def alphabet(m):
    evs = []
    for p in ('1', '2'):
        for a in ('A', 'B'):
            for q in (2, -3):
                evs.append(('submit', p, a, q))
    evs += [('tick', j) for j in range(m.clock, len(bm.INSTANTS))]
    evs += [('quotes', 0), ('quotes', 1)]
    return evs


def run(tier, res, is_known):
    depth = 5 if tier == 'quick' else 7
    res.rule = ('BFS over interleavings of submissions (2 portfolios x 2 assets x buy/sell) with clock updates '
                'to every instant >= now (open, closed, 14:30:00 / 21:00:00 boundaries, weekend) and quote '
                'switches; after every transition pending queues, fills of the step (set, order, once, full) '
                'and untouched cash/holdings are compared; non-trivial = at least one fill on the path')
    res.bounds = {'depth': depth, 'instants': [str(t) for t in bm.INSTANTS]}
    res.assumptions += [
        'cross-portfolio order inside one side is not observable through the API and not compared',
        'pending queues are read from SimulatedBroker.open_orders (the anchor state of the property)',
    ]
    spec = bm.BrokerSpec('C04', FEE, [INIT], alphabet)
    bfs(spec, depth, res, is_known, label='two funded portfolios')


def replay(case):
    return bm.replay_broker(case, 'C04.')


def minimise(case, clause):
    return bm.minimise_broker(case, clause, 'C04.')
