"""C04 - Orders fill exactly once, in full, only in exchange hours, sells first."""
from .. import brokermachine as bm
from ..core import bfs

FEE = ('pct', '0.001', '0')
INIT = (('acct_sub', '20000'), ('create', '1'), ('create', '2'),
        ('pf_sub', '1', '5000'), ('pf_sub', '2', '5000'))


def alphabet(m):
    evs = []
    for p in ('1', '2'):
        for a in ('A', 'Bq'):
            for q in (2, -3):
                evs.append(('submit', p, a, q))
    # orders carrying a user-chosen id that is reused from one submission to the next
    evs += [('submit_labelled', '1', 'A', 2), ('submit_labelled', '2', 'A', -3)]
    # orders created earlier than they are submitted (created_dt = the broker's start)
    evs += [('submit_backdated', '1', 'A', 2), ('submit_backdated', '1', 'A', -3)]
    evs += [('tick', j) for j in range(m.clock, len(bm.INSTANTS))]
    evs += [('quotes', 0), ('quotes', 1), ('quotes', 5)]      # 5: B quoted around one cent (orders worth < 0.5)
    return evs


# ------------------------------------------------------------------------------------------
# part 2: the exchange-hours guard through real fills, on every day of a year (both daylight-saving
# regimes of any wall-clock zone, leap day, weekends) x boundary times: depth-2 histories
# (two pending orders; one clock update) on fresh real brokers
# ------------------------------------------------------------------------------------------
HOUR_TIMES = [(0, 0, 0), (13, 29, 59), (13, 30, 0), (14, 29, 59), (14, 30, 0), (14, 30, 1), (17, 45, 0),
              (19, 59, 59), (20, 0, 0), (20, 59, 59), (21, 0, 0), (21, 0, 1), (23, 59, 59)]


def hours_day(ordinal):
    import datetime
    import pandas as pd
    from qstrader.broker.simulated_broker import SimulatedBroker
    from qstrader.exchange.simulated_exchange import SimulatedExchange
    from qstrader.execution.order import Order
    day = datetime.date.fromordinal(ordinal)
    t0 = pd.Timestamp(datetime.datetime(day.year, day.month, day.day), tz='UTC')
    viols, n, nopen = [], 0, 0
    for hms in HOUR_TIMES:
        t = pd.Timestamp(datetime.datetime(day.year, day.month, day.day, *hms), tz='UTC')
        dh = bm.StubDataHandler()
        b = SimulatedBroker(t0, SimulatedExchange(t0), dh, initial_funds=10000.0)
        b.create_portfolio('p')
        b.subscribe_funds_to_portfolio('p', 5000.0)
        b.submit_order('p', Order(t0, 'A', 2, order_id='o1'))
        b.submit_order('p', Order(t0, 'Bq', -3, order_id='o2'))
        b.update(t)
        fills = [h for h in b.portfolios['p'].history if h.type == 'asset_transaction']
        want = 2 if bm.ref_is_open(t) else 0
        n += 1
        nopen += 1 if want else 0
        pending = len(list(b.open_orders['p'].queue))
        if len(fills) != want or pending != 2 - want:
            viols.append({'clause': 'C04.exchange_hours', 'case': {'harness': 'hours', 'day': ordinal},
                          'detail': {'instant': str(t), 'weekday': day.strftime('%a'), 'fills': len(fills),
                                     'still_pending': pending, 'expected_fills': want}})
    return {'viols': viols[:3], 'execs': n, 'evals': n, 'nontrivial': nopen > 0, 'outcome': (day.weekday(), day.month, nopen),
            'counters': {'hour_grid_updates': n, 'hour_grid_open_instants': nopen}}


def big_batch(k):
    """k cycles of (buy A, sell A, buy B, sell B) for each of two portfolios queued while closed, then one open update"""
    hist = list(INIT) + [('tick', 1)]
    for i in range(k):
        for p in ('1', '2'):
            hist += [('submit', p, 'A', 2), ('submit', p, 'A', -3), ('submit', p, 'Bq', 2), ('submit', p, 'Bq', -3)]
    hist += [('tick', 2), ('tick', 3)]
    viols = []
    for cut in (len(hist) - 1, len(hist)):
        m, fails = bm.build(FEE, tuple(hist[:cut]), check_last=True)
        viols += [dict(f, case={'harness': 'big_batch', 'k': k}) for f in fails if f['clause'].startswith('C04.')]
    return {'viols': viols[:4], 'execs': 2, 'evals': 2, 'nontrivial': True, 'outcome': ('batch', k),
            'counters': {'orders_in_largest_batch': 8 * k}}


# ------------------------------------------------------------------------------------------
# part 4: cash bands.  With a fee model that charges something, a buy is submitted to a portfolio whose cash sits
# just below / exactly at / just above the cost of the shares and the cost of shares + fees: it must still be
# filled in full (a portfolio's cash may go negative; nothing in the statement lets the broker trim an order)
# ------------------------------------------------------------------------------------------
BAND_FEES = [('pct', '0.001', '0'), ('pct', '0.001', '0.005'), ('pct', '0.02', '0.01')]


def cash_band_items(tier):
    out = []
    for fee in BAND_FEES if tier != 'quick' else BAND_FEES[:2]:
        for tab in (0, 3, 5) if tier != 'quick' else (0, 5):
            for asset in ('A', 'Bq'):
                for qty in (1, 7, 1000):
                    out.append((fee, tab, asset, qty))
    return out


def cash_band(item):
    from fractions import Fraction
    fee, tab, asset, qty = item
    ask = bm.F(bm.QUOTES[tab][asset][1])
    pq = ask * qty
    rate = bm.F(fee[1]) + bm.F(fee[2])
    cost = rate * abs(round(pq))
    levels = [pq - Fraction(1, 100), pq, pq + cost / 2, pq + cost - Fraction(1, 10000), pq + cost, pq + cost + Fraction(1, 100)]
    viols, n = [], 0
    for lv in levels:
        if lv <= 0:
            continue
        cash = '%.6f' % float(lv)
        hist = (('acct_sub', '200000000'), ('create', '1'), ('pf_sub', '1', cash), ('quotes', tab), ('tick', 1),
                ('submit', '1', asset, qty), ('tick', 3), ('tick', 4))
        for cut in (len(hist) - 1, len(hist)):
            m, fails = bm.build(fee, hist[:cut], check_last=True)
            n += 1
            viols += [dict(f, case={'harness': 'cash_band', 'item': [list(fee), tab, asset, qty]})
                      for f in fails if f['clause'].startswith('C04.')]
        if viols:
            break
    return {'viols': viols[:4], 'execs': n, 'evals': n, 'nontrivial': True, 'outcome': ('band', tab, asset, qty),
            'counters': {'cash_band_histories': n}}


def many_batch(k):
    """k portfolios, each with a sell and two buys queued while closed (submission interleaved across portfolios), then
    one open update: every portfolio's orders fill once, in full, sells first, same side in submission order"""
    hist = [('acct_sub', str(20000 * k))] + [('create', 'p%02d' % i) for i in range(k)]
    hist += [('pf_sub', 'p%02d' % i, '15000') for i in range(k)] + [('tick', 1)]
    for rnd, (a, q) in enumerate((('A', 2), ('Bq', -3), ('A', 5))):
        order = range(k) if rnd != 1 else range(k - 1, -1, -1)
        hist += [('submit', 'p%02d' % i, a, q if i % 2 else (q + 1 if q > 0 else q - 1)) for i in order]
    hist += [('tick', 2), ('tick', 3)]
    viols = []
    for cut in (len(hist) - 1, len(hist)):
        m, fails = bm.build(FEE, tuple(hist[:cut]), check_last=True)
        viols += [dict(f, case={'harness': 'many_batch', 'k': k}) for f in fails if f['clause'].startswith('C04.')]
    return {'viols': viols[:4], 'execs': 2, 'evals': 2, 'nontrivial': True, 'outcome': ('many_batch', k),
            'counters': {'portfolios_in_largest_account': k}}


def run(tier, res, is_known):
    depth = 5 if tier == 'quick' else 6      # (depth 7 was completed with the 22-event alphabet of the first build; with labelled
    # and backdated submissions in the alphabet and creation ranks in the key it no longer fits in an hour)
    res.rule = ('BFS over interleavings of submissions (2 portfolios x 2 assets x buy/sell) with clock updates '
                'to every instant >= now (open, closed, 14:30:00 / 21:00:00 boundaries, weekend) and quote '
                'switches; after every transition pending queues, fills of the step (set, order, once, full) '
                'and untouched cash/holdings are compared; non-trivial = at least one fill on the path')
    res.bounds = {'depth': depth, 'instants': [str(t) for t in bm.INSTANTS]}
    res.assumptions += [
        'cross-portfolio order inside one side is not observable through the API and not compared',
        'pending queues are read from SimulatedBroker.open_orders (the anchor state of the property)',
    ]
    spec = bm.BrokerSpec('C04', FEE, [INIT], alphabet)
    bfs(spec, depth, res, is_known, label='two funded portfolios')
    if any(not is_known(v) for v in res.violations):
        return
    import datetime
    from ..core import product
    years = [2020] if tier == 'quick' else [2019, 2020, 2021, 2024]
    days = [d for y in years for d in range(datetime.date(y, 1, 1).toordinal(), datetime.date(y, 12, 31).toordinal() + 1)]
    product(hours_day, days, res, is_known, label='exchange hours x every day of %s' % years, chunk=16)
    if any(not is_known(v) for v in res.violations):
        return
    product(periodic, bm.periodic_items([FEE], repeats=(40, 150) if tier == 'quick' else (40, 150, 400)), res, is_known,
            label='long periodic histories', chunk=4)
    # many orders in ONE batch: k buys and k sells of both assets queued before a single update
    product(big_batch, [4, 9, 30, 100], res, is_known, label='large single batches', chunk=1)
    product(many_batch, [5, 9, 17, 33] if tier == 'quick' else [5, 8, 9, 12, 17, 32, 33, 40], res, is_known,
            label='accounts with many portfolios, one update', chunk=1)
    if any(not is_known(v) for v in res.violations):
        return
    product(cash_band, cash_band_items(tier), res, is_known, label='cash at the cost of the shares / of shares + fees', chunk=4)
    res.rule += ('; part 2: every day of %s x 13 boundary times: two pending orders and one clock update on a fresh real '
                 'broker - filled iff Mon-Fri 14:30 <= t < 21:00 UTC' % years)


def replay(case):
    if case.get('harness') == 'hours':
        return hours_day(case['day'])['viols']
    if case.get('harness') == 'periodic':
        return bm.replay_periodic(case, 'C04.')
    if case.get('harness') == 'big_batch':
        return big_batch(case['k'])['viols']
    if case.get('harness') == 'many_batch':
        return many_batch(case['k'])['viols']
    if case.get('harness') == 'cash_band':
        it = case['item']
        return cash_band((tuple(it[0]), it[1], it[2], it[3]))['viols']
    return bm.replay_broker(case, 'C04.')


def minimise(case, clause):
    if case.get('harness') in ('hours', 'periodic', 'big_batch', 'cash_band', 'many_batch'):
        return case
    return bm.minimise_broker(case, clause, 'C04.')


def periodic(item):
    return bm.periodic_point(item, 'C04.', df_check=False)
