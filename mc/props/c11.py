"""C11 - Long/short sizing respects gross leverage and the sign of every weight."""
import itertools
from fractions import Fraction

import numpy as np

from ..core import product
from .c10 import PriceStub, make_broker, fw, ASSETS, ASKS, DT

WEIGHTS = ['-2.5', '-1', '-0.3', '0', '0.3', '1', '2.5']
EQUITIES = ['1', '999.99', '10007', '1000000.01']
LEVERAGES = ['0.5', '1', '1.5', '3']
RATES = ['0', '0.001', '0.3']


def sign(x):
    return (x > 0) - (x < 0)


def check_call(sizer, dh, equity, lev, rate, ws, ps, shared=None):
    n = len(ws)
    assets = ASSETS[:n] if n <= len(ASSETS) else ['EQ:W%02d' % i for i in range(n)]
    dh.ask = {a: float(fw(p)) for a, p in zip(assets, ps)}
    # whole-number weights are passed as python ints, the others as floats (both are legal weight types)
    weights = {a: (int(fw(w)) if fw(w).denominator == 1 else float(fw(w))) for a, w in zip(assets, ws)}
    case = {'kind': 'size', 'equity': str(equity), 'leverage': lev, 'rate': rate, 'weights': list(ws), 'asks': list(ps)}
    try:
        if shared is not None:
            # the caller keeps ONE weights dictionary and edits it in place between calls
            shared.clear()
            shared.update(weights)
            got = sizer(DT, shared)
        else:
            got = sizer(DT, dict(weights))
    except Exception as e:  # noqa
        return [{'clause': 'C11.unexpected_error', 'detail': {'error': repr(e)}, 'case': case}], 0, None
    if set(got.keys()) != set(assets):
        return [{'clause': 'C11.keys', 'detail': {'got': sorted(got), 'want': assets}, 'case': case}], 0, None
    E, L, r = fw(equity), fw(lev), fw(rate)
    G = sum(abs(fw(w)) for w in ws)
    fails, amb = [], 0
    gross = Fraction(0)
    for a, w, p in zip(assets, ws, ps):
        q = got[a].get('quantity') if isinstance(got[a], dict) else None
        if not isinstance(q, (int, np.integer)) or isinstance(q, bool):
            fails.append({'clause': 'C11.whole_number', 'detail': {'asset': a, 'quantity': repr(q)}, 'case': case})
            continue
        w, p = fw(w), fw(p)
        if q != 0 and sign(q) != sign(w):
            fails.append({'clause': 'C11.sign', 'detail': {'asset': a, 'quantity': int(q), 'weight': float(w)},
                          'case': case})
            continue
        A = E * L * (w / G if G != 0 else w)
        B = A - r * abs(A)                    # after estimated cost (cost makes a short larger)
        tol = Fraction(1, 10**9) * max(1, abs(B))
        if abs(q) * p > abs(B) + tol:
            fails.append({'clause': 'C11.over_allocation', 'detail': {'asset': a, 'quantity': int(q), 'price': float(p),
                                                                      'after_cost_allocation': float(B)}, 'case': case})
        if (abs(q) + 1) * p <= abs(B) - 1 - tol:
            fails.append({'clause': 'C11.not_maximal', 'detail': {'asset': a, 'quantity': int(q), 'price': float(p),
                                                                  'after_cost_allocation': float(B)}, 'case': case})
        # The two clauses above ARE the statement: affordable (a truncation, never a rounding up) and the largest such
        # number "to within one currency unit".  The library reaches it by truncating the dollars, then the shares; a
        # sizer that truncates only the shares lands in the same band (possibly one step higher) and is just as right,
        # so no exact value is demanded.  Counted: how often the band admits more than one whole number.
        if int(abs(B) / p) != int(max(abs(B) - 1, 0) / p):
            amb += 1
        gross += abs(q) * p
    if not fails and gross > L * E * (1 + r) + Fraction(1, 10**6):
        fails.append({'clause': 'C11.gross_exposure', 'detail': {'gross': float(gross), 'bound': float(L * E * (1 + r))},
                      'case': case})
    if G == 0 and any(got[a]['quantity'] != 0 for a in assets):
        fails.append({'clause': 'C11.zero_weights', 'detail': {'got': repr(got)}, 'case': case})
    return fails, amb, tuple(int(got[a]['quantity']) for a in assets)


def group(item):
    """One (equity, leverage, rate, price vector): every weight vector, in order, on ONE sizer object."""
    from qstrader.portcon.order_sizer.long_short import LongShortLeveragedOrderSizer
    equity, lev, rate, ps = item
    dh = PriceStub()
    broker = make_broker(equity, rate, dh)
    sizer = LongShortLeveragedOrderSizer(broker, 'p', dh, gross_leverage=float(fw(lev)))
    viols, amb, n, outs, nz = [], 0, 0, set(), 0
    # phases as in C10: all weight vectors; quotes change at the same timestamp; a subset of the assets;
    # half of the funds withdrawn - all on the one sizer / broker pair
    ps2 = tuple(ASKS[(ASKS.index(x) + 1) % len(ASKS)] for x in ps)
    plan = [(equity, ps, ws) for ws in itertools.product(WEIGHTS, repeat=len(ps))]
    plan += [(equity, ps2, ws) for ws in itertools.product(WEIGHTS, repeat=len(ps))]
    # gross exposure within 1e-5 of one / of the leverage but not equal to it
    near = {1: [('1.000004',), ('-0.999996',)], 2: [('0.600004', '-0.400003'), ('-0.599996', '0.399997')],
            3: [('0.400003', '-0.350003', '0.250003')]}
    plan += [(equity, ps, ws) for ws in near[len(ps)]]
    if len(ps) > 1:
        plan += [(equity, ps[:-1], ws) for ws in itertools.product(WEIGHTS[2:6], repeat=len(ps) - 1)]
    half = fw(equity) / 2
    plan += [('half', ps, ws) for ws in itertools.product(WEIGHTS[1:6:2], repeat=len(ps))]
    withdrawn = False
    live = {}
    for eq, prices, ws in plan:
        if eq == 'half':
            if not withdrawn:
                broker.withdraw_funds_from_portfolio('p', float(half))
                withdrawn = True
            eq = half
        f, a, oc = check_call(sizer, dh, eq, lev, rate, ws, prices, shared=live if prices is ps2 else None)
        n += 1
        amb += a
        viols += f
        if oc is not None:
            outs.add(oc)
            if any(x < 0 for x in oc):
                nz += 1
        if len(viols) > 10:
            break
    # the leverage of the live sizer is changed (sizer.gross_leverage = x): sizing must follow the leverage it shows
    if not viols:
        for l2 in LEVERAGES:
            if l2 == lev:
                continue
            sizer.gross_leverage = float(fw(l2))
            for ws in itertools.product(WEIGHTS[1:6:2], repeat=len(ps)):
                f, a, oc = check_call(sizer, dh, half if withdrawn else fw(equity), l2, rate, ws, ps)
                n += 1
                amb += a
                viols += [dict(x, case=dict(x['case'], leverage_at_construction=lev)) for x in f]
            if viols:
                break
    return {'viols': viols[:10], 'execs': n, 'evals': n, 'ambiguous': amb, 'nontrivial': nz > 0,
            'outcome': (item, tuple(sorted(outs))), 'counters': {'calls_with_short_target': nz},
            'sample': {'equity': equity, 'leverage': lev, 'fee_rate': rate, 'asks': list(ps),
                       'distinct_targets': len(outs)}}


def wide_group(item):
    """Wide signed weight vectors (8 / 12 / 40 assets): rotations of the weight and price alphabets on one sizer."""
    from qstrader.portcon.order_sizer.long_short import LongShortLeveragedOrderSizer
    nassets, equity, lev, rate = item
    dh = PriceStub()
    broker = make_broker(equity, rate, dh)
    sizer = LongShortLeveragedOrderSizer(broker, 'p', dh, gross_leverage=float(fw(lev)))
    viols, amb, n, nz = [], 0, 0, 0
    for k in range(len(WEIGHTS)):
        for j in (0, 1, 3):
            ws = tuple(WEIGHTS[(i * (j + 1) + k) % len(WEIGHTS)] for i in range(nassets))
            ps = tuple(ASKS[(i + j + k) % len(ASKS)] for i in range(nassets))
            f, a, oc = check_call(sizer, dh, equity, lev, rate, ws, ps)
            n += 1
            amb += a
            viols += f
            nz += 1 if oc and any(x < 0 for x in oc) else 0
        if viols:
            break
    return {'viols': viols[:6], 'execs': n, 'evals': n, 'ambiguous': amb, 'nontrivial': nz > 0, 'outcome': ('wide',) + tuple(item),
            'counters': {'wide_vector_calls': n}}


def wide_items(tier):
    ns = (8, 12) if tier == 'quick' else (8, 9, 12, 33, 40)
    return [(n, e, lv, r) for n in ns for e in EQUITIES[2:] for lv in LEVERAGES[:3] for r in RATES[:2]]


def refusal(item):
    from qstrader.portcon.order_sizer.long_short import LongShortLeveragedOrderSizer
    kind = item[0]
    case = {'kind': 'refusal', 'item': list(item)}
    dh = PriceStub()
    broker = make_broker('10007', '0.001', dh)
    viols = []

    def expect_value_error(thunk, what):
        try:
            r = thunk()
            viols.append({'clause': 'C11.refusal_missing', 'signature': what, 'detail': {'what': what, 'returned': repr(r)},
                          'case': case})
        except ValueError:
            pass
        except Exception as e:  # noqa
            viols.append({'clause': 'C11.refusal_type', 'signature': what, 'detail': {'what': what, 'error': repr(e)},
                          'case': case})
    if kind == 'leverage':
        expect_value_error(lambda: LongShortLeveragedOrderSizer(broker, 'p', dh, gross_leverage=float(item[1])),
                           'non-positive leverage')
    else:
        n, pos, w = item[1], item[2], item[3]
        sizer = LongShortLeveragedOrderSizer(broker, 'p', dh, gross_leverage=1.0)
        assets = ASSETS[:n]
        dh.ask = {a: 9.99 for a in assets}
        weights = {a: 0.5 for a in assets}
        weights[assets[pos]] = float(w)
        if kind == 'nan':
            dh.ask[assets[pos]] = np.nan
        else:
            del dh.ask[assets[pos]]
        expect_value_error(lambda: sizer(DT, weights), 'NaN price')
    return {'viols': viols, 'execs': 1, 'evals': 1, 'nontrivial': True, 'outcome': ('refusal',) + tuple(item)}


def items(tier):
    out = []
    sizes = (1, 2) if tier == 'quick' else (1, 2, 3)
    for equity in (EQUITIES if tier == 'quick' else EQUITIES + ['2500000000.5']):
        for lev in LEVERAGES:
            for rate in RATES:
                for n in sizes:
                    for ps in itertools.product(ASKS, repeat=n):
                        out.append((equity, lev, rate, ps))
    return out


def refusal_items():
    out = [('leverage', '0'), ('leverage', '-1'), ('leverage', '-0.01')]
    for n in (1, 2, 3):
        for pos in range(n):
            for w in ('0.5', '-0.5', '0'):
                out.append(('nan', n, pos, w))
                out.append(('missing', n, pos, w))
    return out


def run(tier, res, is_known):
    its = items(tier)
    res.rule = ('full product equity x leverage x fee rate x signed weight vector (1-%d assets, 7 values each) x price '
                'vector (5 values each): one real sizer call per point against a real funded broker; plus the refusal '
                'grid; non-trivial = group with a short target; distinct = distinct (configuration, target set)' % (
                    2 if tier == 'quick' else 3))
    res.bounds = {'weights': WEIGHTS, 'asks': ASKS, 'equities': EQUITIES, 'leverages': LEVERAGES, 'rates': RATES,
                  'groups': len(its)}
    res.assumptions += ['after-cost allocation B = A - f|A| (a cost enlarges a short); admissible |q|: |q| p <= |B| (affordable, '
                        'so a truncation and never a rounding up) and (|q|+1) p > |B| - 1 (largest to within one currency unit); '
                        'boundary_ambiguous counts the points where that band holds more than one whole number']
    product(group, its, res, is_known, label='sizing grid', sample_every=397)
    product(wide_group, wide_items(tier), res, is_known, label='wide weight vectors (8-40 assets)', chunk=4)
    product(refusal, refusal_items(), res, is_known, label='refusal grid')
    product(wiring_refusal, [(via, bad) for via in ('qts', 'session') for bad in [0, 0.0, -0.0, -1.0]], res, is_known,
            label='refusals through the system wiring')


def replay(case):
    from qstrader.portcon.order_sizer.long_short import LongShortLeveragedOrderSizer
    if case['kind'] == 'wiring':
        return wiring_refusal(tuple(case['item']))['viols']
    if case['kind'] == 'refusal':
        return refusal(tuple(case['item']))['viols']
    dh = PriceStub()
    broker = make_broker(case['equity'], case['rate'], dh)
    sizer = LongShortLeveragedOrderSizer(broker, 'p', dh, gross_leverage=float(fw(case.get('leverage_at_construction', case['leverage']))))
    sizer.gross_leverage = float(fw(case['leverage']))
    f, _, _ = check_call(sizer, dh, case['equity'], case['leverage'], case['rate'], case['weights'], case['asks'])
    return f


def wiring_refusal(item):
    """the same invalid sizing parameter given through QuantTradingSystem / BacktestTradingSession must be refused too"""
    import pandas as pd
    from qstrader.system.qts import QuantTradingSystem
    from qstrader.trading.backtest import BacktestTradingSession
    from qstrader.asset.universe.static import StaticUniverse
    from qstrader.alpha_model.fixed_signals import FixedSignalsAlphaModel
    via, bad = item
    dh = PriceStub()
    dh.ask = {'EQ:AAA': 9.99}
    uni = StaticUniverse(['EQ:AAA'])
    alpha = FixedSignalsAlphaModel({'EQ:AAA': 1.0})
    viols = []
    case = {'kind': 'wiring', 'item': list(item)}
    kw = dict(long_only=False, gross_leverage=bad)
    try:
        if via == 'qts':
            broker = make_broker('10007', '0.001', dh)
            QuantTradingSystem(uni, broker, 'p', dh, alpha, **kw)
        else:
            t0 = pd.Timestamp('2020-03-02 14:30:00', tz='UTC')
            BacktestTradingSession(t0, t0 + pd.Timedelta(days=3), uni, alpha, rebalance='daily', data_handler=dh, **kw)
        viols.append({'clause': 'C11.refusal_missing', 'signature': 'wiring:%s' % via, 'case': case,
                      'detail': {'via': via, 'value': bad, 'what': 'invalid sizing parameter accepted'}})
    except ValueError:
        pass
    except Exception as e:  # noqa
        viols.append({'clause': 'C11.refusal_type', 'signature': 'wiring:%s' % via, 'case': case,
                      'detail': {'via': via, 'value': bad, 'error': repr(e)}})
    return {'viols': viols, 'execs': 1, 'evals': 1, 'nontrivial': True, 'outcome': ('wiring', via, bad)}
