"""C03 - Position P&L reconciles exactly to the cash flows of its fills.

Two seams, both explored as complete trees (every history up to the depth, every prefix
checked): the Position object itself (copy.copy per branch - plain attributes) and
Portfolio.transact_asset / portfolio_to_dict (deepcopy per branch), where a position that
closes to zero is discarded and a later fill opens a new one ("since a position was opened").
"""
import copy
import itertools
from fractions import Fraction

import numpy as np
import pandas as pd

from ..brokermachine import F, Fx, close
from ..core import product

T0 = pd.Timestamp('2020-03-02 15:00:00', tz='UTC')


def alphabet(tier):
    if tier == 'refusals':
        evs = [('fill', q, p_, c) for q in (2, -2, 5, -5) for p_ in ('10', '12.5') for c in ('0', '1.25')]
        evs += [('refused', 3, '11', '0.75', 'stale'), ('refused', -3, '11', '0.75', 'stale'),
                ('refused', 3, '0', '0.75', 'price'), ('refused', -3, '-1', '0.75', 'price')]
        return evs + [('mark', '11')]
    if tier == 'rebate':
        # negative commissions (liquidity rebates) are commissions too
        evs = [('fill', q, p_, c) for q in (2, -2, 5, -5) for p_ in ('10', '12.5') for c in ('-0.4', '0.3')]
        return evs + [('mark', '11')]
    if tier == 'sameinstant':
        evs = [('fill', q, p_, c) for q in (2, -2, 5) for p_ in ('10', '12.5') for c in ('0', '1.25')]
        evs += [('fill', q, p_, '1.25', 'same') for q in (2, -2, -5) for p_ in ('10', '12.5')]
        return evs + [('mark', '11'), ('mark', '11', 'same'), ('mark', '8.5', 'same')]
    if tier == 'numpy':
        # the same small alphabet with the numbers arriving as NumPy scalars (quantities read from a DataFrame blotter)
        evs = [('fill', q, p_, c, 'np') for q in (2, -2, 5, -5) for p_ in ('10', '12.5') for c in ('0', '1.25')]
        return evs + [('mark', '11')]
    if tier == 'fractional':
        # non-integer lots (binary fractions, so the exact ledger and the floats agree on when the position is flat).
        # Every lot is at least one unit: the library documents integer quantities and Position.transact treats a
        # lot with int(floor(q)) == 0 as "no quantity" - sub-unit lots are outside its domain (DESIGN section 9)
        evs = [('fill', q, p_, c) for q in (2.5, -2.5, 1.25, -1.25, 2, -2) for p_ in ('10', '12.5') for c in ('0', '1.25')]
        return evs + [('mark', '11')]
    if tier == 'large':
        # large sizes with a residual of a few units (relative 5e-6): no tolerance may treat them as flat
        evs = [('fill', q, p, c) for q in (1000000, -1000000, 999995, -999995, 5, -5) for p in ('10', '12.5')
               for c in ('0', '1.25')]
        return evs + [('mark', '11')]
    qtys = [2, -2, 3, -3, 5, -5]
    prices = ['10', '12.5', '9.75']
    comms = ['0', '1.25']
    marks = ['11', '8.5']
    if tier == 'thorough':
        prices = prices + ['0.01', '9999.99']
        comms = comms + ['0.003']
    evs = [('fill', q, p, c) for q in qtys for p in prices for c in comms]
    evs += [('mark', m) for m in marks]
    return evs


class Ref(object):
    """Cash-flow ledger of one open position: the fills since it was opened."""
    __slots__ = ('fills', 'price')

    def __init__(self):
        self.fills = []
        self.price = None

    def copy(self):
        r = Ref()
        r.fills = list(self.fills)
        r.price = self.price
        return r

    def net(self):
        return sum(q for q, _, _ in self.fills)

    def expected(self):
        net = self.net()
        spent = sum(Fraction(q) * p for q, p, _ in self.fills)
        comm = sum(c for _, _, c in self.fills)
        mv = self.price * net
        total = mv - spent - comm
        if net > 0:
            side = [(q, p, c) for q, p, c in self.fills if q > 0]
            avg = (sum(q * p for q, p, _ in side) + sum(c for _, _, c in side)) / sum(q for q, _, _ in side)
            unreal = (self.price - avg) * net
        elif net < 0:
            side = [(-q, p, c) for q, p, c in self.fills if q < 0]
            avg = (sum(q * p for q, p, _ in side) - sum(c for _, _, c in side)) / sum(q for q, _, _ in side)
            unreal = (self.price - avg) * net
        else:
            unreal = Fraction(0)
        return net, mv, total, unreal


def check_view(view, ref, hist, where):
    """view: dict(quantity, market_value, unrealised_pnl, realised_pnl, total_pnl)."""
    fails = []
    net, mv, total, unreal = ref.expected()
    # P&L is a small difference of large notionals: the float error scales with the notional traded, not with
    # the result, so the tolerance is 1e-9 relative to the gross notional (>= 1)
    gross = float(sum(abs(Fraction(q) * p) for q, p, _ in ref.fills) + abs(mv)) or 1.0
    tol = 1e-9 * max(1.0, gross)

    def close(a, b):     # noqa: F811 (shadows the module-level helper on purpose)
        try:
            a = float(a)
        except Exception:
            return False
        return a == a and abs(a - float(b)) <= max(tol, 1e-9 * abs(float(b)))

    def bad(clause, impl, want):
        fails.append({'clause': clause, 'detail': {'where': where, 'impl': float(impl), 'ref': float(want),
                                                   'history': hist}})
    if not close(view['quantity'], net):
        bad('C03.net_quantity', view['quantity'], net)
        return fails
    if not close(view['market_value'], mv):
        bad('C03.market_value', view['market_value'], mv)
    if not close(view['total_pnl'], view['realised_pnl'] + view['unrealised_pnl']):
        bad('C03.total_is_realised_plus_unrealised', view['total_pnl'], view['realised_pnl'] + view['unrealised_pnl'])
    if not close(view['total_pnl'], total):
        bad('C03.total_vs_cash_flows', view['total_pnl'], total)
    if not close(view['unrealised_pnl'], unreal):
        bad('C03.unrealised', view['unrealised_pnl'], unreal)
    return fails


def pos_view(p):
    return {'quantity': p.net_quantity, 'market_value': p.market_value, 'unrealised_pnl': p.unrealised_pnl,
            'realised_pnl': p.realised_pnl, 'total_pnl': p.total_pnl}


def pattern(ref):
    n = ref.net()
    return 'L' if n > 0 else ('S' if n < 0 else 'F')


# ------------------------------------------------------------------------------------------
# seam 1: the Position object
# ------------------------------------------------------------------------------------------

_SCALARS = (int, float, str, bool, type(None), np.floating, np.integer, pd.Timestamp)


def clone(pos):
    """An independent copy of a Position for one branch of the tree.  A shallow copy is one exactly when every
    attribute value is an immutable scalar (true of the library today); a library that keeps its books in
    nested objects gets a deep copy - how a Position stores its figures is not the harness's business."""
    try:
        if all(isinstance(v, _SCALARS) for v in vars(pos).values()):
            return copy.copy(pos)
    except TypeError:
        pass
    return copy.deepcopy(pos)


def apply_position(pos, ref, ev, i):
    """Returns (pos, ref, fails) after the event; pos may be None before the first fill."""
    from qstrader.broker.portfolio.position import Position
    from qstrader.broker.transaction.transaction import Transaction
    fails = []
    dt = T0 + pd.Timedelta(minutes=i)
    if ev[-1] == 'same' and pos is not None:
        # this event carries the SAME timestamp as the one before it (a mark and a fill of one instant, two fills of
        # one batch): legal, and the last price seen is still the last one in sequence
        dt = pos.current_dt
    if ev[0] == 'refused':
        # a fill the position refuses (stale timestamp or non-positive price): nothing may stick to the books
        if pos is None:
            return None, ref, fails
        pos = clone(pos)
        q, p, c, why = ev[1], ev[2], ev[3], ev[4]
        bad_dt = pos.current_dt - pd.Timedelta(minutes=1) if why == 'stale' else dt
        txn = Transaction('A', q, bad_dt, float(p), 'r%d' % i, commission=float(c))
        try:
            pos.transact(txn)
            fails.append({'clause': 'C03.refused_fill_accepted', 'detail': {'event': list(ev)}})
        except ValueError:
            pass
        return pos, ref.copy(), fails
    if ev[0] == 'fill':
        q, p, c = ev[1], ev[2], ev[3]
        if len(ev) > 4 and ev[4] == 'np':
            txn = Transaction('A', np.int64(q), dt, np.float64(float(p)), 'x%d' % i, commission=np.float64(float(c)))
        else:
            txn = Transaction('A', q, dt, float(p), 'x%d' % i, commission=float(c))
        if pos is None:
            pos = Position.open_from_transaction(txn)
        else:
            pos = clone(pos)
            pos.transact(txn)
        ref = ref.copy()
        ref.fills.append((Fraction(q), F(p), F(c)))
        ref.price = F(p)
    else:
        if pos is None:
            return None, ref, fails
        before = (pos.realised_pnl, pos.net_quantity, pos.buy_quantity, pos.sell_quantity)
        pos = clone(pos)
        pos.update_current_price(float(ev[1]), dt)
        after = (pos.realised_pnl, pos.net_quantity, pos.buy_quantity, pos.sell_quantity)
        ref = ref.copy()
        ref.price = F(ev[1])
        if before != after:
            fails.append({'clause': 'C03.mark_changed_realised_or_quantity',
                          'detail': {'before': before, 'after': after}})
    return pos, ref, fails


def run_position_history(hist):
    pos, ref = None, Ref()
    fails = []
    for i, ev in enumerate(hist):
        pos, ref, f = apply_position(pos, ref, tuple(ev), i)
        fails = f
    if pos is not None:
        fails = fails + check_view(pos_view(pos), ref, [list(e) for e in hist], 'Position')
    return fails


def subtree_position(args):
    tier, prefix, depth = args
    evs = alphabet(tier)
    viols, pats, n = [], set(), 0
    pos, ref = None, Ref()
    pat0 = ''
    for i, ev in enumerate(prefix):
        if pos is not None:
            pat0 += pattern(ref)
        pos, ref, f = apply_position(pos, ref, ev, i)
    # prefix states themselves are checked by the shallower subtrees (depth-first completeness:
    # the driver also submits every strict prefix as its own item with depth 0)
    stack = [(pos, ref, tuple(prefix), pat0)]
    while stack:
        pos, ref, hist, pat = stack.pop()
        n += 1
        if pos is not None:
            fails = check_view(pos_view(pos), ref, [list(e) for e in hist], 'Position')
            for f in fails:
                f['case'] = {'seam': 'position', 'history': [list(e) for e in hist]}
                viols.append(f)
            if fails:
                continue
            pats.add(pat + pattern(ref))
        if len(hist) - len(prefix) >= depth:
            continue
        for ev in evs:
            p2, r2, f = apply_position(pos, ref, ev, len(hist))
            h2 = hist + (ev,)
            if f:
                for x in f:
                    x['case'] = {'seam': 'position', 'history': [list(e) for e in h2]}
                    x['detail']['history'] = [list(e) for e in h2]
                    viols.append(x)
                continue
            stack.append((p2, r2, h2, (pat + pattern(ref)) if pos is not None else ''))
        if len(viols) > 20:
            break
    return {'viols': viols[:20], 'execs': n, 'evals': n, 'sets': {'net_sign_paths': pats},
            'nontrivial': True, 'outcome': None,
            'sample': {'seam': 'position', 'subtree_prefix': [list(e) for e in prefix], 'states': n}}


# ------------------------------------------------------------------------------------------
# seam 2: Portfolio.transact_asset / portfolio_to_dict (positions discarded at zero, re-opened)
# ------------------------------------------------------------------------------------------
def pf_alphabet(tier):
    if tier == 'large':
        # lots of a million with residuals of a few units, and tiny lots next to them
        evs = [('fill', 'A', q, p_, c) for q in (1000000, -1000000, 999995, -999995, 5, -5, 1, -1)
               for p_, c in (('10', '0'), ('12.5', '1.25'))]
        return evs + [('mark', 'A', '11')]
    evs = []
    for q in (2, -2, 3, -3, 5, -5):
        for p, c in (('10', '0'), ('12.5', '1.25'), ('9.75', '1.25')):
            evs.append(('fill', 'A', q, p, c))
    evs += [('fill', 'B', 3, '20', '1.25'), ('fill', 'B', -3, '21.5', '0.5')]
    evs += [('mark', 'A', '11'), ('mark', 'A', '8.5'), ('mark', 'B', '19')]
    return evs


def new_portfolio():
    from qstrader.broker.portfolio.portfolio import Portfolio
    return Portfolio(T0, starting_cash=100000.0, portfolio_id='p')


def apply_portfolio(port, refs, ev, i):
    from qstrader.broker.transaction.transaction import Transaction
    dt = T0 + pd.Timedelta(minutes=i + 1)
    refs = {a: r.copy() for a, r in refs.items()}
    port = copy.deepcopy(port)
    fails = []
    if ev[0] == 'fill':
        a, q, p, c = ev[1], ev[2], ev[3], ev[4]
        port.transact_asset(Transaction(a, q, dt, float(p), 'x%d' % i, commission=float(c)))
        r = refs.get(a)
        if r is None:
            r = refs[a] = Ref()
        r.fills.append((q, F(p), F(c)))
        r.price = F(p)
        if r.net() == 0:
            del refs[a]          # closed to exactly zero: the next fill opens a new position
    else:
        a = ev[1]
        before = port.portfolio_to_dict()
        port.update_market_value_of_asset(a, float(ev[2]), dt)
        after = port.portfolio_to_dict()
        if a in refs:
            refs[a].price = F(ev[2])
        for asset in before:
            if asset in after and (before[asset]['realised_pnl'] != after[asset]['realised_pnl'] or
                                   before[asset]['quantity'] != after[asset]['quantity']):
                fails.append({'clause': 'C03.mark_changed_realised_or_quantity',
                              'detail': {'asset': asset, 'before': before[asset], 'after': after[asset]}})
    return port, refs, fails


def check_portfolio(port, refs, hist):
    fails = []
    d = port.portfolio_to_dict()
    tot = {'total_pnl': 0.0, 'realised_pnl': 0.0, 'unrealised_pnl': 0.0}
    for a, r in refs.items():
        if a not in d:
            continue                       # membership is C02's clause
        fails += check_view(d[a], r, hist, 'Portfolio[%s]' % a)
        for k in tot:
            tot[k] += d[a][k]
    if set(d) == set(refs):
        for k, attr in (('total_pnl', 'total_pnl'), ('realised_pnl', 'total_realised_pnl'),
                        ('unrealised_pnl', 'total_unrealised_pnl')):
            if not close(getattr(port, attr), tot[k]):
                fails.append({'clause': 'C03.portfolio_totals', 'detail': {'attr': attr, 'impl': getattr(port, attr),
                                                                          'sum': tot[k], 'history': hist}})
    return fails


def subtree_portfolio(args):
    tier, prefix, depth = args
    evs = pf_alphabet(tier)
    viols, pats, n = [], set(), 0
    port, refs = new_portfolio(), {}
    pat0 = ''
    for i, ev in enumerate(prefix):
        pat0 += (pattern(refs['A']) if 'A' in refs else 'F')
        port, refs, f = apply_portfolio(port, refs, ev, i)
    stack = [(port, refs, tuple(prefix), pat0)]
    while stack:
        port, refs, hist, pat = stack.pop()
        n += 1
        hl = [list(e) for e in hist]
        fails = check_portfolio(port, refs, hl)
        for f in fails:
            f['case'] = {'seam': 'portfolio', 'history': hl}
            viols.append(f)
        if fails:
            continue
        pat2 = pat + (pattern(refs['A']) if 'A' in refs else 'F')
        pats.add(pat2)
        if len(hist) - len(prefix) >= depth:
            continue
        for ev in evs:
            p2, r2, f = apply_portfolio(port, refs, ev, len(hist))
            h2 = hist + (ev,)
            if f:
                for x in f:
                    x['case'] = {'seam': 'portfolio', 'history': [list(e) for e in h2]}
                    viols.append(x)
                continue
            stack.append((p2, r2, h2, pat2))
        if len(viols) > 20:
            break
    return {'viols': viols[:20], 'execs': n, 'evals': n, 'sets': {'portfolio_net_sign_paths': pats},
            'nontrivial': True, 'outcome': None,
            'sample': {'seam': 'portfolio', 'subtree_prefix': [list(e) for e in prefix], 'states': n}}


def periodic_position(item):
    """every cycle of <= 2 events repeated many times on ONE Position object (count-dependent behaviour)"""
    cyc, repeats = [tuple(e) for e in item['cycle']], item['repeats']
    pos, ref = None, Ref()
    viols, i, done = [], 0, 0
    for r in repeats:
        while done < r:
            for ev in cyc:
                pos, ref, f = apply_position(pos, ref, ev, i)
                i += 1
                if f:
                    viols += [dict(x, case={'seam': 'periodic', 'cycle': item['cycle'], 'repeat': r}) for x in f]
            done += 1
        if pos is not None and not viols:
            fails = check_view(pos_view(pos), ref, {'cycle': item['cycle'], 'repeat': r}, 'Position')
            viols += [dict(x, case={'seam': 'periodic', 'cycle': item['cycle'], 'repeat': r}) for x in fails]
        if viols:
            break
    return {'viols': viols[:4], 'execs': i, 'evals': len(repeats), 'nontrivial': True, 'outcome': None,
            'counters': {'periodic_position_events': i}}


def run(tier, res, is_known):
    dpos = 4 if tier == 'quick' else 4
    dpf = 4 if tier == 'quick' else 5
    if tier == 'thorough':
        dpos = 4
    evs = alphabet(tier)
    res.rule = ('complete trees of fill/mark histories: Position seam (%d events/level, depth %d) and Portfolio seam '
                '(%d events/level, depth %d); every prefix is a checked state; non-trivial counted per subtree root; '
                'coverage = set of running net-sign paths (L/S/F per step) reached' % (
                    len(evs), dpos, len(pf_alphabet(tier)), dpf))
    res.bounds = {'position_depth': dpos, 'portfolio_depth': dpf, 'position_alphabet': len(evs),
                  'portfolio_alphabet': len(pf_alphabet(tier))}
    res.assumptions += [
        'identities are checked on an alphabet of generic decimals (plus extremes in thorough), not for all reals',
        'long random float sequences (sampling) are outside this family and not done',
        'average cost of the open side is taken over all fills on that side since the position was opened',
    ]
    split = 2
    items = [(tier, (), split - 1)]          # all states of depth < split
    for pre in itertools.product(evs, repeat=split):
        items.append((tier, pre, dpos - split))
    product(subtree_position, items, res, is_known, label='position tree', chunk=8, sample_every=301)
    if any(not is_known(v) for v in res.violations):
        return
    levs = alphabet('large')
    litems = [('large', (), 0)] + [('large', (pre,), 2 if tier == 'quick' else 3) for pre in levs]
    product(subtree_position, litems, res, is_known, label='position tree, large magnitudes', chunk=1, sample_every=7)
    if any(not is_known(v) for v in res.violations):
        return
    fevs = alphabet('refusals')
    fitems = [('refusals', (), 0)] + [('refusals', (pre,), 3) for pre in fevs]
    product(subtree_position, fitems, res, is_known, label='position tree with refused fills', chunk=1, sample_every=7)
    if any(not is_known(v) for v in res.violations):
        return
    qevs = alphabet('fractional')
    qitems = [('fractional', (), 0)] + [('fractional', (pre,), 2 if tier == 'quick' else 3) for pre in qevs]
    product(subtree_position, qitems, res, is_known, label='position tree, fractional lots', chunk=1, sample_every=7)
    if any(not is_known(v) for v in res.violations):
        return
    sevs = alphabet('sameinstant')
    sitems = [('sameinstant', (), 0)] + [('sameinstant', (pre,), 3) for pre in sevs if pre[-1] != 'same']
    product(subtree_position, sitems, res, is_known, label='position tree, several events at one instant', chunk=1, sample_every=7)
    if any(not is_known(v) for v in res.violations):
        return
    nevs = alphabet('numpy')
    nitems = [('numpy', (), 0)] + [('numpy', (pre,), 3) for pre in nevs]
    product(subtree_position, nitems, res, is_known, label='position tree, NumPy scalar arguments', chunk=1, sample_every=7)
    if any(not is_known(v) for v in res.violations):
        return
    revs = alphabet('rebate')
    ritems = [('rebate', (), 0)] + [('rebate', (pre,), 3) for pre in revs]
    product(subtree_position, ritems, res, is_known, label='position tree, negative commissions', chunk=1, sample_every=7)
    if any(not is_known(v) for v in res.violations):
        return
    pitems = [{'cycle': [list(e) for e in cyc], 'repeats': [60, 400] if tier == 'quick' else [60, 400, 2000]}
              for n in (1, 2) for cyc in itertools.product(evs, repeat=n) if any(e[0] == 'fill' for e in cyc)]
    product(periodic_position, pitems, res, is_known, label='position, long periodic histories', chunk=16,
            sample_every=10 ** 9)
    if any(not is_known(v) for v in res.violations):
        return
    lpevs = pf_alphabet('large')
    lpitems = [('large', (), 0)] + [('large', (pre,), 2) for pre in lpevs]
    product(subtree_portfolio, lpitems, res, is_known, label='portfolio tree, large lots', chunk=1, sample_every=7)
    if any(not is_known(v) for v in res.violations):
        return
    pevs = pf_alphabet(tier)
    items = [(tier, (), split - 1)]
    for pre in itertools.product(pevs, repeat=split):
        items.append((tier, pre, dpf - split))
    product(subtree_portfolio, items, res, is_known, label='portfolio tree', chunk=4, sample_every=101)
    # states counted = tree nodes
    res.states = res.executions
    res.transitions = res.executions
    res.max_depth = max(dpos, dpf)
    # realisable sign paths at this depth, computed independently from the alphabet
    want = set()
    qs = sorted(set(e[1] for e in evs if e[0] == 'fill'))

    def rec(net, pat, d):
        if pat:
            want.add(pat)
        if d == dpos:
            return
        for q in qs:
            n2 = net + q
            rec(n2, pat + ('L' if n2 > 0 else 'S' if n2 < 0 else 'F'), d + 1)
        if pat:
            rec(net, pat + ('L' if net > 0 else 'S' if net < 0 else 'F'), d + 1)
    rec(0, '', 0)
    got = res.extra.get('net_sign_paths', set())
    # distinct observed outcomes = the running net-sign paths (long / short / flat per step) actually reached
    res.outcomes |= {('position',) + tuple(x) if not isinstance(x, str) else ('position', x) for x in got}
    res.outcomes |= {('portfolio', str(x)) for x in res.extra.get('portfolio_net_sign_paths', ())}
    res.extra['net_sign_paths_realisable'] = len(want)
    res.extra['net_sign_paths_missing'] = sorted(want - got)[:10]
    res.extra['net_sign_paths'] = len(got)
    res.extra['portfolio_net_sign_paths'] = len(res.extra.get('portfolio_net_sign_paths', ()))
    res.nontrivial = set(got)


def replay(case):
    hist = [tuple(e) for e in case['history']]
    if case['seam'] == 'periodic':
        return periodic_position({'cycle': case['cycle'], 'repeats': [case['repeat']]})['viols']
    # every prefix state is read exactly as the exploration read it (each prefix was a checked state)
    if case['seam'] == 'position':
        pos, ref = None, Ref()
        fails = []
        for i, ev in enumerate(hist):
            pos, ref, f = apply_position(pos, ref, ev, i)
            fails = f
            if pos is not None and not fails:
                fails = check_view(pos_view(pos), ref, case['history'][:i + 1], 'Position')
        return fails
    port, refs = new_portfolio(), {}
    fails = check_portfolio(port, refs, [])
    for i, ev in enumerate(hist):
        port, refs, f = apply_portfolio(port, refs, ev, i)
        fails = f
        if not fails:
            fails = check_portfolio(port, refs, case['history'][:i + 1])
    return fails


def minimise(case, clause):
    if case.get('seam') == 'periodic':
        return case
    hist = [list(e) for e in case['history']]
    i = 0
    while i < len(hist):
        trial = hist[:i] + hist[i + 1:]
        try:
            ok = bool(trial) and any(f['clause'] == clause for f in replay(dict(case, history=trial)))
        except Exception:  # noqa
            ok = False
        if ok:
            hist = trial
        else:
            i += 1
    return dict(case, history=hist)
