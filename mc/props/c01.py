"""C01 - Cash is conserved across master account, portfolios and fills (DESIGN.md section 5)."""
from .. import brokermachine as bm
from ..core import bfs

FEES_QUICK = [('zero',), ('pct', '0.0015', '0.005')]
FEES_THOROUGH = FEES_QUICK + [('pct', '0.001', '0'), ('pct', '0', '1'), ('pct', '1', '0'), ('pct', '0.00004', '0')]

FUNDED = (('acct_sub', '5000'), ('create', '1'), ('create', '2'),
          ('pf_sub', '1', '2000'), ('pf_sub', '2', '2000'))
INITIALS = [
    (),
    FUNDED,
    FUNDED + (('submit', '1', 'A', 5), ('tick', 2)),                      # long 5 A
    (('acct_sub', '5000'), ('create', '2'), ('pf_sub', '2', '99.99'),      # short 8 B, long 30 A,
     ('submit', '2', 'Bq', -8), ('submit', '2', 'A', 30), ('tick', 2)),     # negative cash
]


def alphabet(m):
    evs = [('acct_sub', '1000'), ('acct_sub', '250.37'), ('acct_wd', '100.5'),
           ('create', '1'), ('create', '2')]
    for p in ('1', '2'):
        evs += [('pf_sub', p, '400'), ('pf_sub', p, '99.995'), ('pf_wd', p, '50.25'), ('pf_wd', p, '16.667')]
    # transfer the master balance as quoted (rounded to cents) - offered only when the true balance has a
    # sub-cent residue of at least 0.001, so that 'exceeds the balance' is not a matter of float noise
    from fractions import Fraction
    if abs(Fraction(repr(m.quoted_master())) - m.master) >= Fraction(1, 1000):
        evs.append(('pf_sub_quoted', '1'))
    # ... and a portfolio's cash as quoted, withdrawn back to the master (same residue rule; cash must be positive)
    for p in ('1', '2'):
        if p in m.pfs and m.pfs[p].cash > 0 and abs(Fraction(repr(m.quoted_cash(p))) - m.pfs[p].cash) >= Fraction(1, 1000):
            evs.append(('pf_wd_quoted', p))
    # a fill the position refuses (price 0 on a held asset, commission 1.25), handed to the portfolio directly: cash,
    # history and holdings must be exactly what they were
    for p in ('1', '2'):
        if p in m.pfs and m.pfs[p].clock <= m.clock:
            for a in sorted(m.pfs[p].pos):
                if m.pfs[p].pos[a].clock <= m.clock:
                    evs.append(('fill_refused', p, a))
    for p in ('1', '2'):
        for a, qs in (('A', (3, -3, 5, -8)), ('Bq', (5, -8))):
            for q in qs:
                evs.append(('submit', p, a, q))
    # an order carrying an id the user chose and reuses (the same order sent twice, a scale-in under one label):
    # two fills with one id, asset, side and timestamp are still two cash movements
    evs += [('submit_labelled', '1', 'A', 3), ('submit_labelled', '2', 'A', 3)]
    ticks = {m.clock}
    if m.clock + 1 < len(bm.INSTANTS):
        ticks.add(m.clock + 1)
    j = bm.next_open(m.clock)
    if j is not None:
        ticks.add(j)
    evs += [('tick', j) for j in sorted(ticks)]
    evs += [('quotes', 0), ('quotes', 1)]
    return evs


def run(tier, res, is_known):
    depth = 4 if tier == 'quick' else 5
    fees = FEES_QUICK if tier == 'quick' else FEES_THOROUGH
    res.rule = ('BFS over SimulatedBroker histories (events: account/portfolio subscribe+withdraw, create, '
                'submit, tick, quotes) from 4 initial states x fee configurations; a state is non-trivial '
                'when at least one fill happened on the way; distinct = distinct canonical key')
    res.bounds = {'depth': depth, 'fees': [list(f) for f in fees], 'initial_states': len(INITIALS),
                  'plan': '(fee, initial state, base currency, depth) - see parts'}
    res.assumptions += [
        'exact Fraction ledger; floats compared with 1e-9 relative tolerance; history amounts per the cents rule',
        'fills are taken as recorded by Portfolio.transact_asset (price side and commission are C05)',
        'values outside the alphabet are represented by generic (non-cancelling) decimals only',
    ]
    if tier == 'quick':
        # from the empty state no fill is reachable within depth 4 (it needs 5 events), so the fee model is irrelevant
        # there; the funded-and-flat state (1) is a prefix of the long state (2) and gets one level less
        plan = [(FEES_QUICK[0], 0, 'USD', depth), (FEES_QUICK[0], 1, 'USD', depth - 1), (FEES_QUICK[0], 2, 'USD', depth - 1),
                (FEES_QUICK[0], 3, 'USD', depth), (FEES_QUICK[1], 2, 'USD', depth - 1), (FEES_QUICK[1], 3, 'USD', depth),
                (('pct', '0.00004', '0'), 3, 'USD', depth),      # commissions below half a cent
                (FEES_QUICK[1], 3, 'GBP', depth)]               # the account need not be in USD
    else:
        # full depth for the first two fee models, one level less for the others (the alphabet has grown since the
        # first build; the complete product at depth 5 no longer fits in an hour)
        plan = [(fee, i, 'USD', depth if k < 2 else depth - 1) for k, fee in enumerate(fees) for i in range(len(INITIALS))]
        plan += [(FEES_QUICK[1], 2, 'GBP', depth - 1), (FEES_QUICK[0], 1, 'EUR', depth - 1)]
    for fee, i, base, dep in plan:
        for init in [INITIALS[i]]:
            spec = bm.BrokerSpec('C01', fee, [init], alphabet, df_check=True, base=base)
            bfs(spec, dep, res, is_known, label='fee=%s init=%d base=%s' % ('/'.join(fee), i, base))
            if any(not is_known(v) for v in res.violations):
                return
    from ..core import product
    pits = bm.periodic_items([FEES_QUICK[1]] if tier == 'quick' else FEES_QUICK, repeats=(40, 150) if tier == 'quick' else (40, 150, 400))
    product(periodic, pits, res, is_known, label='long periodic histories', chunk=4)
    res.rule += '; plus every cycle of <= 2 events over a 10-event alphabet repeated 40 / 150 (/ 400) times at one open instant'
    if any(not is_known(v) for v in res.violations):
        return
    # very long ledgers: more than 10 000 (thorough: 25 000) history entries in one portfolio, amounts that are not
    # whole cents (percentage fee, 16.667 transfers) - whatever the library does every n-th entry must keep the books
    fee = FEES_QUICK[1]
    cycles = [[['submit', '1', 'A', 3], ['submit', '1', 'A', -3], ['tick', 3]],
              [['pf_sub', '1', '16.667'], ['pf_wd', '1', '16.667']]]
    if tier != 'quick':
        cycles += [[['submit', '1', 'Bq', 5], ['submit', '2', 'A', -8], ['pf_wd', '1', '16.667'], ['tick', 3]],
                   [['submit', '2', 'A', 40000], ['submit', '2', 'A', -40000], ['tick', 3]]]
    reps = [5200] if tier == 'quick' else [5200, 12600]
    vits = [{'fee': list(fee), 'cycle': c, 'repeats': [r]} for c in cycles for r in reps]
    product(periodic, vits, res, is_known, label='very long ledgers (> 10 000 entries)', chunk=1)
    res.rule += '; plus %d ledgers of more than 10 000 entries' % len(vits)
    if any(not is_known(v) for v in res.violations):
        return
    # many portfolios on one account (5 - 40): the account totals are sums over all of them
    mits = [(k, base) for k in ((5, 9, 17) if tier == 'quick' else (5, 8, 9, 17, 32, 33, 40)) for base in ('USD', 'GBP')]
    product(many_portfolios, mits, res, is_known, label='accounts with many portfolios', chunk=1)
    res.rule += '; plus accounts with 5-40 portfolios'


def replay(case):
    if case.get('harness') == 'many_portfolios':
        m, fails = bm.build(FEES_QUICK[1], many_history(case['k'])[:case['cut']], check_last=True, base=case['base'])
        return [f for f in fails if f['clause'].startswith('C01.')]
    if case.get('harness') == 'periodic':
        return bm.replay_periodic(case, 'C01.', df_check=True)
    return bm.replay_broker(dict(case, df_check=True), 'C01.')


def minimise(case, clause):
    if case.get('harness') in ('periodic', 'many_portfolios'):
        return case
    return bm.minimise_broker(dict(case, df_check=True), clause, 'C01.')


def periodic(item):
    return bm.periodic_point(item, 'C01.', df_check=True)


def many_history(k):
    hist = [('acct_sub', str(1000 * k + 777))]
    for i in range(k):
        hist.append(('create', 'p%02d' % i))
    for i in range(k):
        hist.append(('pf_sub', 'p%02d' % i, '%d.%02d' % (600 + 37 * i, (i * 7) % 100)))
    hist.append(('tick', 1))
    for i in range(0, k, 2):
        hist.append(('submit', 'p%02d' % i, 'A' if i % 4 == 0 else 'Bq', 3 if i % 3 else -2))
    hist += [('tick', 3)]
    for i in range(1, k, 3):
        hist.append(('pf_wd', 'p%02d' % i, '16.667'))
    hist += [('quotes', 1), ('tick', 4), ('acct_wd', '100.005')]
    return tuple(hist)


def many_portfolios(item):
    k, base = item
    fee = FEES_QUICK[1]
    hist = many_history(k)
    viols, n = [], 0
    for cut in range(2 * k + 2, len(hist) + 1):
        m, fails = bm.build(fee, hist[:cut], check_last=True, base=base)
        n += 1
        viols += [dict(f, case={'harness': 'many_portfolios', 'k': k, 'base': base, 'cut': cut}) for f in fails
                  if f['clause'].startswith('C01.')]
        if viols:
            break
    return {'viols': viols[:4], 'execs': n, 'evals': n, 'nontrivial': True, 'outcome': ('many', k, base),
            'counters': {'many_portfolio_histories': n}}
