"""C08 - A fixed-weight backtest reproduces the documented trading rules exactly."""
import datetime
import itertools
import shutil
from fractions import Fraction

from .. import market as mk
from .. import refmodel as rm
from .. import sessionlab as sl
from ..brokermachine import close
from ..core import product
from ..env import scratch_dir

MARKET_DAYS = rm.bdays(datetime.date(2020, 2, 20), datetime.date(2021, 4, 16))
WEEK = [datetime.date(2020, 2, 24) + datetime.timedelta(days=i) for i in range(7)]   # Mon .. Sun
SCHEDULES = [('weekly', w) for w in ('MON', 'TUE', 'WED', 'THU', 'FRI')] + [('daily', None), ('end_of_month', None),
                                                                          ('buy_and_hold', None)]
LONG_ONLY_W = [('1',), ('0.6', '0.4'), ('1', '1'), ('0.5', '0.3', '0.2'), ('1', '0', '2'), ('0.333333', '0.666667')]
SIGNED_W = [('1', '-0.7'), ('0.5', '-0.5', '0.25')]
SHAPES = ['rising', 'falling', 'zigzag', 'gapdown']
BASES = {'AAA': '41.37', 'BBB': '103.11', 'CCC': '17.93'}


def markets_for(n, tier):
    if n == 1:
        combos = [(s,) for s in SHAPES]
    elif n == 2:
        combos = list(itertools.product(SHAPES, repeat=2)) if tier == 'thorough' else [
            ('rising', 'falling'), ('zigzag', 'gapdown'), ('falling', 'zigzag'), ('gapdown', 'rising')]
    else:
        combos = [('rising', 'falling', 'zigzag'), ('gapdown', 'rising', 'falling'), ('zigzag', 'zigzag', 'rising'),
                  ('falling', 'gapdown', 'gapdown'), ('rising', 'rising', 'rising'), ('falling', 'zigzag', 'gapdown')]
        if tier == 'quick':
            combos = combos[:2]
    return combos


def end_for(start_date, n_bdays):
    days = sl.bdays_from(start_date, n_bdays)
    return days[-1]


def configs(tier):
    """One item per (market); the worker runs every configuration on it (the market is loaded once)."""
    out = []
    if tier == 'quick':
        modes = [(True, w) for w in (LONG_ONLY_W[0], LONG_ONLY_W[1], LONG_ONLY_W[3], LONG_ONLY_W[5])] + [(False, w) for w in SIGNED_W]
        times = ['auto']
        lengths = [7]
        params = {True: ['0.05', '0'], False: ['1.5']}   # an explicit zero buffer is a buffer, not 'use the default'
        fees = [['zero'], ['pct', '0.001', '0.0005']]
        cashes = ['10007.31', '270.05']   # the small one makes targets toggle between 0 and 1 share
    else:
        modes = [(True, w) for w in LONG_ONLY_W] + [(False, w) for w in LONG_ONLY_W + SIGNED_W]
        times = ['00:00', '14:30']
        lengths = [4, 7, 10]
        params = {True: ['0', '0.05'], False: ['1', '1.5']}
        fees = [['zero'], ['pct', '0.001', '0.0005']]
        cashes = ['10007.31', '123456.78', '270.05']
    for long_only, w in modes:
        n = len(w)
        for shapes in markets_for(n, tier):
            out.append({'long_only': long_only, 'weights': list(w), 'shapes': list(shapes), 'tier': tier,
                        'times': times, 'lengths': lengths, 'params': params[long_only], 'fees': fees, 'cashes': cashes})
    # "for any market data": a symbol held by two data sources, the first-listed one starting inside the session
    for k in (4, 6) if tier == 'quick' else (3, 4, 5, 6, 8):
        for long_only, w, shapes in ((True, ('0.6', '0.4'), ('rising', 'falling')), (False, ('1', '-0.7'), ('zigzag', 'gapdown'))):
            out.append({'long_only': long_only, 'weights': list(w), 'shapes': list(shapes), 'tier': tier, 'times': times,
                        'lengths': lengths, 'params': params[long_only], 'fees': fees[-1:], 'cashes': cashes[:1], 'overlap': k})
    # markets with exchange holidays (business days without a bar in any asset)
    for hol in ([6], [8, 9]) if tier == 'quick' else ([4], [6], [8, 9], [5, 10]):
        for long_only, w, shapes in ((True, ('0.5', '0.3', '0.2'), ('rising', 'falling', 'zigzag')),
                                     (False, ('1', '-0.7'), ('zigzag', 'gapdown'))):
            out.append({'long_only': long_only, 'weights': list(w), 'shapes': list(shapes), 'tier': tier, 'times': times,
                        'lengths': lengths, 'params': params[long_only], 'fees': fees[-1:], 'cashes': cashes[:1], 'holidays': hol})
    return out


def session_cfgs(item):
    n = len(item['weights'])
    assets = [sl.asset_name(s) for s in sl.SYMS[:n]]
    for (kind, wd), start_date, tm, length, param, fee, cash in itertools.product(
            SCHEDULES, WEEK, item['times'], item['lengths'], item['params'], item['fees'], item['cashes']):
        if tm == 'auto':
            tm = '14:30' if kind == 'buy_and_hold' else '00:00'
        end_date = end_for(start_date, length)
        cfg = {'start': '%sT%s:00+00:00' % (start_date.isoformat(), tm), 'end': '%sT23:59:00+00:00' % end_date.isoformat(),
               'burn_in': None, 'assets': assets, 'universe': {'kind': 'static'},
               'alpha': {'kind': 'fixed', 'weights': dict(zip(assets, item['weights']))},
               'rebalance': kind, 'weekday': wd, 'long_only': item['long_only'], 'fee': fee, 'cash': cash}
        if item['long_only']:
            cfg['buffer'] = param
        else:
            cfg['leverage'] = param
        yield cfg
    # long horizon: 70 business days (three month ends, a quarter of weekly rebalances) from two alignments
    for (kind, wd), start_date, fee in itertools.product([('end_of_month', None), ('weekly', 'FRI'), ('daily', None)],
                                                          [WEEK[0], WEEK[5]], item['fees']):
        end_date = end_for(start_date, 70)
        cfg = {'start': '%sT00:00:00+00:00' % start_date.isoformat(), 'end': '%sT23:59:00+00:00' % end_date.isoformat(),
               'burn_in': None, 'assets': assets, 'universe': {'kind': 'static'},
               'alpha': {'kind': 'fixed', 'weights': dict(zip(assets, item['weights']))},
               'rebalance': kind, 'weekday': wd, 'long_only': item['long_only'], 'fee': fee, 'cash': item['cashes'][0]}
        cfg['buffer' if item['long_only'] else 'leverage'] = item['params'][0]
        yield cfg
    # the library's default setting prints every event: the same rules apply with printing on (output discarded);
    # a large account, so that the fifth decimal of a weight moves whole shares
    for kind, wd in (('daily', None), ('weekly', 'WED')):
        end_date = end_for(WEEK[0], 7)
        cfg = {'start': '%sT00:00:00+00:00' % WEEK[0].isoformat(), 'end': '%sT23:59:00+00:00' % end_date.isoformat(),
               'burn_in': None, 'assets': assets, 'universe': {'kind': 'static'},
               'alpha': {'kind': 'fixed', 'weights': dict(zip(assets, item['weights']))},
               'rebalance': kind, 'weekday': wd, 'long_only': item['long_only'], 'fee': item['fees'][-1],
               'cash': '50000000.5', 'print_events': True}
        cfg['buffer' if item['long_only'] else 'leverage'] = item['params'][0]
        yield cfg
    # thirteen months (the same calendar month in two years), end of month
    end_date = end_for(WEEK[0], 285)
    cfg = {'start': '%sT00:00:00+00:00' % WEEK[0].isoformat(), 'end': '%sT23:59:00+00:00' % end_date.isoformat(),
           'burn_in': None, 'assets': assets, 'universe': {'kind': 'static'},
           'alpha': {'kind': 'fixed', 'weights': dict(zip(assets, item['weights']))},
           'rebalance': 'end_of_month', 'weekday': None, 'long_only': item['long_only'], 'fee': item['fees'][-1],
           'cash': item['cashes'][0]}
    cfg['buffer' if item['long_only'] else 'leverage'] = item['params'][0]
    yield cfg


def market_from(shapes, n, overlap=None, holidays=None):
    if holidays:
        # business days on which the exchange was closed: no asset has a bar; the price on such a day is the last one
        # seen (the previous close), orders queued before it fill at the next real open
        m = market_from(shapes, n, overlap)
        gone = set(MARKET_DAYS[i] for i in holidays)
        return {sym: [r for r in rows if r[0] not in gone] for sym, rows in m.items()}
    spec = {s: (shape, BASES[s]) for s, shape in zip(sl.SYMS[:n], shapes)}
    if overlap:
        # the first symbol is held by TWO data sources: the first-listed one starts `overlap` days late (a young
        # series), the second-listed one (a long proxy at other prices) answers only until then
        s0 = sl.SYMS[0]
        spec[s0] = (shapes[0], BASES[s0], overlap)
        spec[s0 + '@2'] = ('zigzag', '77.31')
    return sl.make_market(MARKET_DAYS, spec)


def market_of(item):
    return market_from(item['shapes'], len(item['weights']), item.get('overlap'), item.get('holidays'))


def compare(cfg, market, handler):
    """returns (fails, ambiguous, n_fills)"""
    case = {'cfg': cfg, 'shapes': None}
    numeric = dict(cfg)
    numeric['alpha'] = {'kind': 'fixed', 'weights': {a: float(Fraction(w)) for a, w in cfg['alpha']['weights'].items()}}
    numeric['cash'] = float(Fraction(cfg['cash']))
    numeric['print_events'] = bool(cfg.get('print_events'))
    if cfg['long_only']:
        numeric['buffer'] = float(Fraction(cfg['buffer']))
    else:
        numeric['leverage'] = float(Fraction(cfg['leverage']))
    # every other configuration gets an idle second portfolio on the same broker account
    import zlib
    if zlib.crc32(repr(sorted(cfg.items(), key=str)).encode()) % 2:
        numeric['idle_portfolio'] = True
    obs = sl.run_session(numeric, handler)
    fails = []

    def price(asset, t):
        p = sl.price_at(market, asset.replace('EQ:', ''), t)
        if p is None:
            raise rm.Ambiguous('no price')
        return p
    try:
        ref = rm.Backtest(cfg, price).run()
    except rm.Ambiguous:
        return [], 1, 0
    if obs.error is not None:
        return [{'clause': 'C08.run_failed', 'detail': {'error': obs.error}}], 0, 0
    # fills
    got = [(rm.to_py(f[0]), f[1], f[2], f[3], f[4]) for f in obs.fills]
    if len(got) != len(ref.fills):
        fails.append({'clause': 'C08.fills', 'detail': {'n_impl': len(got), 'n_ref': len(ref.fills),
                                                        'impl': [str(x) for x in got[:4]], 'ref': [str((str(f[0]), f[1], f[2], float(f[3]), float(f[4]))) for f in ref.fills[:4]]}})
    else:
        # fills of one instant are compared as a set; their sequence within the instant is fixed by the statement only
        # as "sells first" (for orders sized at the open itself - buy and hold - the library fills in list order, the
        # reference does the same, and sells-first is accepted as well: the statement does not choose)
        def groups(fl):
            out = []
            for f in fl:
                if out and out[-1][0] == f[0]:
                    out[-1][1].append(f)
                else:
                    out.append((f[0], [f]))
            return out
        gg, rg = groups(got), groups(ref.fills)
        if [t for t, _ in gg] != [t for t, _ in rg] or [len(x) for _, x in gg] != [len(x) for _, x in rg]:
            fails.append({'clause': 'C08.fills', 'detail': {'impl_instants': [(str(t), len(x)) for t, x in gg][:6],
                                                            'ref_instants': [(str(t), len(x)) for t, x in rg][:6]}})
        for (t, gi), (_, ri) in zip(gg, rg):
            if fails:
                break
            same_order = [x[1] for x in gi] == [x[1] for x in ri]
            sells_first = all(not (a[2] > 0 and b[2] < 0) for i, a in enumerate(gi) for b in gi[i + 1:])
            if not (same_order or sells_first):
                fails.append({'clause': 'C08.fills', 'detail': {'instant': str(t), 'order_within_instant': [(x[1], x[2]) for x in gi],
                                                                'ref': [(x[1], x[2]) for x in ri]}})
                break
            for g, r in zip(sorted(gi, key=lambda x: (x[1], x[2])), sorted(ri, key=lambda x: (x[1], x[2]))):
                if g[1] != r[1] or not close(g[2], r[2]):
                    fails.append({'clause': 'C08.fills', 'detail': {'impl': str(g), 'ref': str((str(r[0]), r[1], r[2], float(r[3]), float(r[4])))}})
                    break
                if not close(g[3], r[3]):
                    fails.append({'clause': 'C08.fill_price', 'detail': {'impl': str(g), 'ref_price': float(r[3])}})
                    break
                if not close(g[4], r[4]):
                    fails.append({'clause': 'C08.fill_commission', 'detail': {'impl': str(g), 'ref_commission': float(r[4])}})
                    break
    if not fails:
        if not close(obs.cash, ref.cash):
            fails.append({'clause': 'C08.final_cash', 'detail': {'impl': obs.cash, 'ref': float(ref.cash)}})
        if {a: int(q) for a, q in obs.holdings.items()} != ref.held:
            fails.append({'clause': 'C08.final_holdings', 'detail': {'impl': obs.holdings, 'ref': ref.held}})
    eq = [(rm.to_py(t), v) for t, v in obs.equity]
    if [t for t, _ in eq] != [t for t, _ in ref.equity]:
        fails.append({'clause': 'C08.equity_dates', 'detail': {'impl': [str(t) for t, _ in eq][:12],
                                                               'ref': [str(t) for t, _ in ref.equity][:12]}})
    elif not fails:
        for (t, v), (_, r) in zip(eq, ref.equity):
            if not close(v, r):
                fails.append({'clause': 'C08.equity_value', 'detail': {'date': str(t), 'impl': v, 'ref': float(r)}})
                break
    return fails, 0, len(ref.fills)


def per_market(item):
    d = scratch_dir('qsc08-')
    viols, n, amb, nontriv, nfills = [], 0, 0, 0, 0
    outs = set()
    try:
        market = market_of(item)
        # "for any market data": another market with the same symbols and dates has been traded in this
        # process before (its own data source objects) - prices must still come from this session's data
        n_assets = len(item['weights'])
        d2 = scratch_dir('qsc08d-')
        try:
            decoy = sl.make_market(MARKET_DAYS, {s: ('flat', '7.77') for s in sl.SYMS[:n_assets]})
            sl.write_market(d2, decoy)
            h2, _ = sl.load_handler(d2, decoy)
            first = next(iter(session_cfgs(item)))
            num = dict(first, cash=float(Fraction(first['cash'])))
            num['alpha'] = {'kind': 'fixed', 'weights': {a: float(Fraction(w)) for a, w in first['alpha']['weights'].items()}}
            for k in ('buffer', 'leverage'):
                if k in num:
                    num[k] = float(Fraction(num[k]))
            num['rebalance'], num['weekday'] = 'daily', None
            sl.run_session(num, h2)
        finally:
            shutil.rmtree(d2, ignore_errors=True)
        sl.write_market(d, market)
        handler, _ = sl.load_handler(d, market)
        for cfg in session_cfgs(item):
            fails, a, nf = compare(cfg, market, handler)
            n += 1
            amb += a
            nfills += nf
            if nf:
                nontriv += 1
                outs.add((cfg['rebalance'], cfg['weekday'], cfg['start'][:10], nf))
            for f in fails:
                f['case'] = {'cfg': cfg, 'shapes': item['shapes'], 'overlap': item.get('overlap'), 'holidays': item.get('holidays')}
                viols.append(f)
            if len(viols) > 8:
                break
    finally:
        mk.clear_caches()
        shutil.rmtree(d, ignore_errors=True)
    return {'viols': viols[:8], 'execs': n, 'evals': n, 'ambiguous': amb, 'nontrivial': nontriv > 0,
            'outcome': (tuple(item['weights']), tuple(item['shapes']), item['long_only']),
            'counters': {'sessions': n, 'sessions_with_fills': nontriv, 'fills_compared': nfills,
                         'sessions_skipped_ambiguous': amb},
            'sets': {'session_shapes': outs},
            'sample': {'weights': item['weights'], 'shapes': item['shapes'], 'long_only': item['long_only'],
                       'sessions': n, 'with_fills': nontriv}}


def run(tier, res, is_known):
    its = configs(tier)
    res.rule = ('full product of weight vectors (1-3 assets, long-only and signed) x price-path shapes x 8 schedules x 7 start '
                'alignments (x start time, length, buffer/leverage, fee, initial cash in thorough): each point is a complete '
                'real BacktestTradingSession on a CSV market, compared fill by fill, cash, holdings and equity point by '
                'point with an independent reference simulator written from the documented rules; non-trivial = session '
                'with at least one fill; distinct = (schedule, start alignment, number of fills) shapes')
    res.bounds = {'market_items': len(its), 'window': [str(MARKET_DAYS[0]), str(MARKET_DAYS[-1])]}
    res.assumptions += ['sessions in which the documented rule hits an exact floor / rounding boundary are skipped and counted '
                        '(sessions_skipped_ambiguous)',
                        'reference = refmodel.Backtest (Fractions, datetime calendar); static universe, full data']
    product(per_market, its, res, is_known, label='sessions', chunk=1)
    res.states = res.extra.get('sessions', 0)
    res.transitions = res.extra.get('fills_compared', 0)
    shapes = res.extra.pop('session_shapes', set())
    res.nontrivial = set(shapes)
    res.boundary_ambiguous = res.extra.get('sessions_skipped_ambiguous', 0)


def replay(case):
    d = scratch_dir('qsc08r-')
    try:
        cfg = case['cfg']
        n = len(cfg['assets'])
        market = market_from(case['shapes'], n, case.get('overlap'), case.get('holidays'))
        sl.write_market(d, market)
        handler, _ = sl.load_handler(d, market)
        fails, _, _ = compare(cfg, market, handler)
        return fails
    finally:
        mk.clear_caches()
        shutil.rmtree(d, ignore_errors=True)
