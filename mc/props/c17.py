"""C17 - Performance statistics match their definitions for every equity curve."""
import datetime
import itertools
import json
import math
import os
import shutil
import warnings
from fractions import Fraction

import numpy as np
import pandas as pd

from .. import refmodel as rm
from ..core import product
from ..env import scratch_dir

STARTS = [datetime.date(2019, 12, 24), datetime.date(2020, 2, 24), datetime.date(2020, 6, 29), datetime.date(2021, 1, 1)]
STEPS_QUICK = ['0.8', '1', '1.25', '2']
STEPS_THOROUGH = STEPS_QUICK + ['0.5']
PERIODS = 252
TOL = 1e-9


def feq(impl, ref, tol=TOL):
    """NaN = NaN, +-inf = +-inf, else relative tolerance."""
    try:
        impl = float(impl)
        ref = float(ref)
    except Exception:
        return False
    if math.isnan(ref):
        return math.isnan(impl)
    if math.isinf(ref):
        return impl == ref
    if math.isnan(impl) or math.isinf(impl):
        return False
    return abs(impl - ref) <= tol * max(1.0, abs(ref))


def bdates(start, n):
    out, d = [], start
    while len(out) < n:
        if rm.is_bday(d):
            out.append(d)
        d += rm.ONE_DAY
    return out


def equity_values(steps):
    x = Fraction(100)
    vals = [x]
    for s in steps:
        x = x * Fraction(s)
        vals.append(x)
    return vals


def pstd(vals):
    n = len(vals)
    if n == 0:
        return math.nan
    m = sum(vals) / n
    return math.sqrt(float(sum((v - m) ** 2 for v in vals) / n))


def ratio(mean, sd):
    """sqrt(periods) * mean / sd with the IEEE conventions for 0/0 and x/0."""
    if isinstance(sd, float) and math.isnan(sd):
        return math.nan
    if sd == 0:
        if mean == 0:
            return math.nan
        return math.inf if mean > 0 else -math.inf
    return math.sqrt(PERIODS) * float(mean) / sd


def definitions(dates, vals):
    n = len(vals)
    r = [Fraction(0)] + [vals[i] / vals[i - 1] - 1 for i in range(1, n)]
    cum = []
    c = Fraction(1)
    for x in r:
        c *= (1 + x)
        cum.append(c)
    out = {'returns': r, 'cum': cum}

    def agg(keyf):
        groups = []
        for d, x in zip(dates, r):
            k = keyf(d)
            if groups and groups[-1][0] == k:
                groups[-1][1] *= (1 + x)
            else:
                groups.append([k, 1 + x])
        return [g[1] - 1 for g in groups]
    out['weekly_a'] = agg(lambda d: (d.year, d.month, d.isocalendar()[1]))
    out['weekly_b'] = agg(lambda d: tuple(d.isocalendar())[:2])
    out['monthly'] = agg(lambda d: (d.year, d.month))
    out['yearly'] = agg(lambda d: d.year)
    mean = sum(r) / n
    out['mean'] = mean
    out['sharpe'] = ratio(mean, pstd(r))
    out['sortino'] = ratio(mean, pstd([x for x in r if x < 0]))
    out['sortino_neg_count'] = sum(1 for x in r if x < 0)
    out['sortino_neg_distinct'] = len(set(x for x in r if x < 0))
    out['cagr'] = float(cum[-1]) ** (PERIODS / float(n)) - 1.0
    return out


def drawdown_definition(cum):
    """On the reported cumulative series itself: dd_t = 1 - cum_t / max_{s<=t} cum_s (first point included)."""
    dd, hwm = [], -math.inf
    for x in cum:
        hwm = max(hwm, x)
        dd.append(1.0 - x / hwm if x != hwm else 0.0)
    run = best = 0
    for v in dd:
        run = run + 1 if v != 0 else 0
        best = max(best, run)
    return dd, max(dd), best


def robust_duration(dd):
    run = best = 0
    for v in dd:
        run = run + 1 if v > 1e-9 else 0
        best = max(best, run)
    return best


def series_vals(tuples):
    return [v for _, v in tuples]


def compute_impl(dates, floats, workdir, with_file=False, bench=None):
    from qstrader.statistics.json_statistics import JSONStatistics
    from qstrader.statistics.tearsheet import TearsheetStatistics
    import qstrader.statistics.performance as perf
    df = pd.DataFrame({'Equity': list(floats)}, index=list(dates))
    # the allocation table as a session hands it over: no weights before the first rebalance (1-2 leading all-NaN
    # rows when the curve is long enough) - what is reported about the EQUITY curve must not depend on it
    lead = 0 if len(dates) < 3 else (1 + len(dates) % 2)
    alloc = pd.DataFrame({'EQ:AAA': [math.nan] * lead + [0.6] * (len(dates) - lead),
                          'EQ:BBB': [math.nan] * lead + [0.4] * (len(dates) - lead)}, index=list(dates))
    fn = os.path.join(workdir, 'statistics.json')
    with warnings.catch_warnings():
        warnings.simplefilter('ignore')
        bdf = None if bench is None else pd.DataFrame({'Equity': list(bench)}, index=list(dates))
        js = JSONStatistics(df.copy(), alloc, periods=PERIODS, output_filename=fn, benchmark_curve=bdf)
        s = js.statistics['strategy']
        curve = js.equity_curve
        weekly = list(perf.aggregate_returns(curve['Returns'], 'weekly'))
        ts = TearsheetStatistics(strategy_equity=df.copy(), periods=PERIODS).get_results(df.copy())
        reloaded = None
        if with_file:
            js.to_file()
            with open(fn) as f:
                reloaded = json.load(f)
    out = {
        'returns': series_vals(s['returns']), 'cum': series_vals(s['cum_returns']), 'dd': series_vals(s['drawdowns']),
        'max_dd': s['max_drawdown'], 'dur': s['max_drawdown_duration'], 'cagr': s['cagr'], 'sharpe': s['sharpe'],
        'sortino': s['sortino'], 'mean': s['mean_returns'], 'weekly': weekly,
        'monthly': [v for _, v in s['monthly_agg_returns']], 'yearly': [v for _, v in s['yearly_agg_returns']],
        'ts': ts, 'stats': js.statistics, 'reloaded': reloaded,
    }
    if bench is not None:
        b = js.statistics['benchmark']
        out['bench'] = {
            'returns': series_vals(b['returns']), 'cum': series_vals(b['cum_returns']), 'dd': series_vals(b['drawdowns']),
            'max_dd': b['max_drawdown'], 'dur': b['max_drawdown_duration'], 'cagr': b['cagr'], 'sharpe': b['sharpe'],
            'sortino': b['sortino'], 'mean': b['mean_returns'],
            'weekly': list(perf.aggregate_returns(js.benchmark_curve['Returns'], 'weekly')),
            'monthly': [v for _, v in b['monthly_agg_returns']], 'yearly': [v for _, v in b['yearly_agg_returns']],
        }
    return out


def norm_json(o):
    """what a JSON round trip does to a value (tuples -> lists, numpy scalars -> floats), NaN kept comparable"""
    if isinstance(o, dict):
        return {str(k): norm_json(v) for k, v in o.items()}
    if isinstance(o, (list, tuple)):
        return [norm_json(v) for v in o]
    if isinstance(o, (np.floating, float)):
        f = float(o)
        return 'NaN' if math.isnan(f) else f
    if isinstance(o, (np.integer,)):
        return int(o)
    return o


def compare_core(im, dates, vals, bad, fails):
    """returns, cumulative returns, aggregates, drawdowns, CAGR, Sharpe, Sortino of one curve vs the definitions"""
    ref = definitions(dates, vals)
    n = len(vals)
    for name, key in (('returns', 'returns'), ('cumulative_returns', 'cum')):
        if len(im[key]) != n or not all(feq(a, b) for a, b in zip(im[key], ref[key])):
            bad('C17.' + name, {'impl': im[key], 'ref': [float(x) for x in ref[key]]})
    if fails:
        return
    # the order in which the groups are listed is not part of the statement: compare as multisets
    for name in ('monthly', 'yearly'):
        if len(im[name]) != len(ref[name]) or not all(feq(a, b) for a, b in zip(sorted(im[name]), sorted(ref[name]))):
            bad('C17.aggregate_' + name, {'impl': im[name], 'ref': [float(x) for x in ref[name]]})
    wk_ok = any(len(im['weekly']) == len(ref[k]) and all(feq(a, b) for a, b in zip(sorted(im['weekly']), sorted(ref[k])))
                for k in ('weekly_a', 'weekly_b'))
    if not wk_ok:
        bad('C17.aggregate_weekly', {'impl': im['weekly'], 'ref': [float(x) for x in ref['weekly_a']]})
    for name in ('weekly', 'monthly', 'yearly'):
        tot = 1.0
        for v in im[name]:
            tot *= (1 + v)
        if not feq(tot, im['cum'][-1]):
            bad('C17.aggregates_compound_to_total', {'period': name, 'compounded': tot, 'daily_total': im['cum'][-1]})
    # drawdowns: definition evaluated on the reported cumulative series
    dd, mdd, dur = drawdown_definition(im['cum'])
    if len(im['dd']) != n or not all(feq(a, b) for a, b in zip(im['dd'], dd)):
        bad('C17.drawdown_series', {'impl': im['dd'], 'ref': dd})
    if not feq(im['max_dd'], mdd):
        bad('C17.max_drawdown', {'impl': float(im['max_dd']), 'ref': mdd})
    if im['dur'] != dur and not fails:
        bad('C17.drawdown_duration', {'impl': im['dur'], 'ref': dur, 'drawdowns': dd})
    elif im['dur'] != dur:
        bad('C17.drawdown_duration', {'impl': im['dur'], 'ref': dur})
    if not feq(im['cagr'], ref['cagr']):
        bad('C17.cagr', {'impl': float(im['cagr']), 'ref': ref['cagr']})
    if not feq(im['mean'], ref['mean']):
        bad('C17.mean', {'impl': float(im['mean']), 'ref': float(ref['mean'])})
    # ratios of a (possibly cancelling) mean to a deviation: float noise of the mean is amplified, so 1e-6
    if not feq(im['sharpe'], ref['sharpe'], 1e-6):
        bad('C17.sharpe', {'impl': float(im['sharpe']), 'ref': ref['sharpe']})
    so_ok = feq(im['sortino'], ref['sortino'], 1e-6)
    degenerate = ref['sortino_neg_count'] >= 1 and ref['sortino_neg_distinct'] == 1    # exact deviation is 0
    if not so_ok and degenerate:
        v = float(im['sortino'])
        if ref['mean'] == 0:
            so_ok = True            # 0/0: the statement defines no value; float residue decides nan / inf / anything
        else:
            # x/0: +-inf exactly, or a huge value of the right sign when a float residue of ~1e-17 is left
            so_ok = (math.isinf(v) or abs(v) > 1e9) and (v > 0) == (ref['mean'] > 0)
    if not so_ok:
        bad('C17.sortino', {'impl': float(im['sortino']), 'ref': ref['sortino']})


def evaluate(case, workdir):
    start = datetime.date.fromisoformat(case['start'])
    vals = equity_values(case['steps'])
    dates = bdates(start, len(vals))
    fails = []

    def bad(clause, detail):
        fails.append({'clause': clause, 'detail': dict(detail, equity=[float(v) for v in vals], start=case['start']),
                      'case': case})
    try:
        im = compute_impl(dates, [float(v) for v in vals], workdir, with_file=True)
    except Exception as e:  # noqa
        bad('C17.unexpected_error', {'error': repr(e)})
        return fails
    # the strategy curve, and a second curve given as the optional benchmark (same dates, other values)
    bvals = equity_values(list(reversed(case['steps'])))
    try:
        imb = compute_impl(dates, [float(v) for v in vals], workdir, bench=[float(v) for v in bvals])
    except Exception as e:  # noqa
        bad('C17.unexpected_error', {'error': repr(e), 'with': 'benchmark_curve'})
        return fails
    n = len(vals)
    compare_core(im, dates, vals, bad, fails)
    if fails:
        return fails

    def bad_b(clause, detail):
        bad(clause, dict(detail, curve='benchmark_curve', benchmark_equity=[float(v) for v in bvals]))
    compare_core(imb['bench'], dates, bvals, bad_b, fails)
    if fails:
        return fails
    # tearsheet reports the same numbers as the JSON export
    ts = im['ts']
    pairs = [('sharpe', ts['sharpe'], im['sharpe']), ('max_drawdown', ts['max_drawdown'], im['max_dd']),
             ('max_drawdown_duration', ts['max_drawdown_duration'], im['dur'])]
    for name, a, b in pairs:
        if not (feq(a, b, 0.0) or (a == b)):
            bad('C17.tearsheet_vs_json', {'statistic': name, 'tearsheet': float(a), 'json': float(b)})
    for name, a, b in (('drawdowns', list(ts['drawdowns']), im['dd']), ('returns', list(ts['returns']), im['returns']),
                       ('cum_returns', list(ts['cum_returns']), im['cum'])):
        if len(a) != len(b) or not all(feq(x, y, 0.0) for x, y in zip(a, b)):
            bad('C17.tearsheet_vs_json', {'statistic': name, 'tearsheet': [float(x) for x in a], 'json': b})
    # a frame that already went through the tearsheet is sliced / extended and goes through it again: the result
    # must be that of the derived curve, computed afresh
    if len(vals) >= 3:
        try:
            from qstrader.statistics.tearsheet import TearsheetStatistics
            with warnings.catch_warnings():
                warnings.simplefilter('ignore')
                tsobj = TearsheetStatistics(strategy_equity=None, periods=PERIODS)
                used = pd.DataFrame({'Equity': [float(v) for v in vals]}, index=list(dates))
                tsobj.get_results(used)
                derived = used.iloc[1:]
                r_derived = tsobj.get_results(derived)
                fresh = pd.DataFrame({'Equity': [float(v) for v in vals[1:]]}, index=list(dates[1:]))
                r_fresh = TearsheetStatistics(strategy_equity=None, periods=PERIODS).get_results(fresh)
            for key in ('sharpe', 'max_drawdown', 'max_drawdown_duration'):
                if not (feq(r_derived[key], r_fresh[key], 0.0) or r_derived[key] == r_fresh[key]):
                    bad('C17.tearsheet_on_derived_frame', {'statistic': key, 'derived_frame': float(r_derived[key]),
                                                           'fresh_frame': float(r_fresh[key])})
            for key in ('returns', 'cum_returns', 'drawdowns'):
                a, b = list(r_derived[key]), list(r_fresh[key])
                if len(a) != len(b) or not all(feq(x, y, 0.0) for x, y in zip(a, b)):
                    bad('C17.tearsheet_on_derived_frame', {'statistic': key, 'derived_frame': [float(x) for x in a],
                                                           'fresh_frame': [float(x) for x in b]})
        except Exception as e:  # noqa
            bad('C17.unexpected_error', {'error': repr(e), 'on': 'derived frame'})
    # the written file reloads to the same statistics
    if norm_json(im['stats']) != norm_json(im['reloaded']):
        bad('C17.json_file_roundtrip', {'keys': sorted(im['stats'].get('strategy', {}).keys())[:5]})
    # metamorphic: unchanged under scaling of the equity
    scalings = [(2, True), (Fraction('3.7'), False)]
    if len(case['steps']) <= 3 or len(case['steps']) > 50:
        scalings += [(Fraction(10**7), False), (Fraction(1, 10**5), False)]      # very large / very small accounts
    for factor, exact in scalings:
        try:
            im2 = compute_impl(dates, [float(v * factor) for v in vals], workdir)
        except Exception as e:  # noqa
            bad('C17.unexpected_error', {'error': repr(e), 'scale': float(factor)})
            continue
        tol = 0.0 if exact else TOL
        for key in ('max_dd', 'cagr', 'sharpe', 'mean'):
            if not feq(im2[key], im[key], tol if (exact or key != 'sharpe') else 1e-6):
                bad('C17.scale_invariance', {'statistic': key, 'scale': float(factor), 'scaled': float(im2[key]),
                                             'original': float(im[key])})
        refd = definitions(dates, vals)
        degenerate = refd['sortino_neg_count'] >= 1 and refd['sortino_neg_distinct'] == 1
        if not degenerate and not feq(im2['sortino'], im['sortino'], tol if exact else 1e-6):
            big = abs(float(im['sortino'])) > 1e9 or math.isinf(float(im['sortino'])) or math.isnan(float(im['sortino']))
            big2 = abs(float(im2['sortino'])) > 1e9 or math.isinf(float(im2['sortino'])) or math.isnan(float(im2['sortino']))
            if exact or not (big and big2):
                bad('C17.scale_invariance', {'statistic': 'sortino', 'scale': float(factor),
                                             'scaled': float(im2['sortino']), 'original': float(im['sortino'])})
        for key in ('returns', 'cum', 'dd', 'weekly', 'monthly', 'yearly'):
            if len(im2[key]) != len(im[key]) or not all(feq(a, b, tol) for a, b in zip(im2[key], im[key])):
                bad('C17.scale_invariance', {'statistic': key, 'scale': float(factor)})
        d1 = im['dur'] if exact else robust_duration(im['dd'])
        d2 = im2['dur'] if exact else robust_duration(im2['dd'])
        if d1 != d2:
            bad('C17.scale_invariance', {'statistic': 'max_drawdown_duration', 'scale': float(factor), 'scaled': d2,
                                         'original': d1})
    return fails



# ------------------------------------------------------------------------------------------
# the rendered tearsheet (plot_results): the numbers printed on the sheet, for the strategy AND for a benchmark
# whose dates need not be the strategy's
# ------------------------------------------------------------------------------------------
LABELS = {'Total Return': ('tot', '{:.0%}'), 'CAGR': ('cagr', '{:.2%}'), 'Sharpe Ratio': ('sharpe', '{:.2f}'),
          'Sortino Ratio': ('sortino', '{:.2f}'), 'Max Daily Drawdown': ('max_dd', '{:.2%}'),
          'Max Drawdown Duration (Days)': ('dur', '{:.0f}')}


def json_numbers(dates, floats, workdir):
    from qstrader.statistics.json_statistics import JSONStatistics
    df = pd.DataFrame({'Equity': list(floats)}, index=list(dates))
    alloc = pd.DataFrame({'EQ:AAA': [1.0] * len(dates)}, index=list(dates))
    with warnings.catch_warnings():
        warnings.simplefilter('ignore')
        s = JSONStatistics(df, alloc, periods=PERIODS, output_filename=os.path.join(workdir, 's.json')).statistics['strategy']
    return {'tot': series_vals(s['cum_returns'])[-1] - 1.0, 'cagr': s['cagr'], 'sharpe': s['sharpe'], 'sortino': s['sortino'],
            'max_dd': s['max_drawdown'], 'dur': s['max_drawdown_duration']}


def printed_ok(fmt, value, text):
    """text is fmt applied to value, allowing float noise to decide a rounding tie either way"""
    try:
        v = float(value)
    except Exception:
        return False
    cands = set()
    for f in (1.0, 1 - 1e-9, 1 + 1e-9):
        for add in (0.0, 1e-12, -1e-12):
            try:
                cands.add(fmt.format(v * f + add))
            except Exception:  # noqa
                pass
    return text in cands or text.replace('-0', '0') in {c.replace('-0', '0') for c in cands}


def rendered_point(case):
    """case: start, steps (strategy), bench_steps, bench_offset (business days: <0 = benchmark starts earlier)"""
    import matplotlib.pyplot as plt
    from qstrader.statistics.tearsheet import TearsheetStatistics
    d = scratch_dir('qsc17r-')
    fails = []
    try:
        start = datetime.date.fromisoformat(case['start'])
        svals = [float(v) for v in equity_values(case['steps'])]
        bvals = [float(v) for v in equity_values(case['bench_steps'])]
        off = case['bench_offset']
        cal = bdates(start - datetime.timedelta(days=60), 200)
        i0 = next(i for i, x in enumerate(cal) if x >= start)
        sdates = cal[i0:i0 + len(svals)]
        bdates_ = cal[i0 + off:i0 + off + len(bvals)]
        sdf = pd.DataFrame({'Equity': svals}, index=list(sdates))
        bdf = pd.DataFrame({'Equity': bvals}, index=list(bdates_))
        want = {'strategy': json_numbers(sdates, svals, d), 'benchmark': json_numbers(bdates_, bvals, d)}
        plt.close('all')
        with warnings.catch_warnings():
            warnings.simplefilter('ignore')
            ts = TearsheetStatistics(strategy_equity=sdf.copy(), benchmark_equity=bdf.copy(), periods=PERIODS)
            try:
                ts.plot_results()
            except Exception as e:  # noqa
                return {'viols': [{'clause': 'C17.unexpected_error', 'detail': {'error': repr(e), 'on': 'plot_results'}, 'case': case}],
                        'execs': 1, 'evals': 1, 'nontrivial': True, 'outcome': ('rendered', off)}
        fig = plt.gcf()
        rows = {}
        for ax in fig.axes:
            for t in ax.texts:
                x, y = t.get_position()
                rows.setdefault((id(ax), round(y, 3)), []).append((x, t.get_text()))
        parsed = 0
        for cells in rows.values():
            cells.sort()
            label = cells[0][1]
            if label not in LABELS or len(cells) < 3:
                continue
            parsed += 1
            key, fmt = LABELS[label]
            for who, (_, text) in zip(('strategy', 'benchmark'), cells[1:3]):
                if not printed_ok(fmt, want[who][key], text):
                    fails.append({'clause': 'C17.tearsheet_vs_json', 'case': case,
                                  'detail': {'printed_on_sheet': text, 'statistic': label, 'column': who,
                                             'json_export': float(want[who][key]), 'benchmark_offset_days': off}})
        plt.close('all')
        return {'viols': fails[:4], 'execs': 1, 'evals': 1, 'nontrivial': parsed == len(LABELS),
                'outcome': ('rendered', off, parsed), 'counters': {'rendered_sheets': 1, 'rendered_rows_parsed': parsed}}
    finally:
        shutil.rmtree(d, ignore_errors=True)


def rendered_items(tier):
    pats = [['1.25', '0.8', '0.8', '1.25', '2', '0.8'], ['0.8', '0.8', '1.25', '1', '0.8', '2', '1.25']]
    offs = [0, -3, 2] if tier == 'quick' else [0, -1, -3, -7, 2, 5]
    out = []
    for k, sp in enumerate(pats if tier != 'quick' else pats[:1]):
        for off in offs:
            for bl in ((8, 12) if tier != 'quick' else (10,)):
                bp = [pats[1 - k][i % len(pats[1 - k])] for i in range(bl)]
                out.append({'kind': 'rendered', 'start': '2020-03-02', 'steps': sp, 'bench_steps': bp, 'bench_offset': off})
    return out


def point(case):
    d = scratch_dir('qsc17-')
    try:
        fails = evaluate(case, d)
    finally:
        shutil.rmtree(d, ignore_errors=True)
    vals = equity_values(case['steps'])
    first_is_peak = all(v <= vals[0] for v in vals) and any(v < vals[0] for v in vals)
    return {'viols': fails[:6], 'execs': 3, 'evals': 1, 'nontrivial': any(s != '1' for s in case['steps']),
            'outcome': (case['start'], tuple(case['steps'])),
            'counters': {'first_point_is_peak': int(first_is_peak),
                         'monotone': int(all(Fraction(s) >= 1 for s in case['steps']) or all(Fraction(s) <= 1 for s in case['steps']))},
            'sample': {'start': case['start'], 'equity': [float(v) for v in vals]}}


def items(tier):
    steps = STEPS_QUICK if tier == 'quick' else STEPS_THOROUGH
    maxlen = 6 if tier == 'quick' else 7         # observations
    out = []
    for ci, start in enumerate(STARTS):
        for n in range(1, maxlen):
            if tier == 'quick' and n == maxlen - 1 and ci >= 2:
                continue          # quick: the longest curves on two of the four calendars (all four in thorough)
            for seq in itertools.product(steps, repeat=n):
                out.append({'start': start.isoformat(), 'steps': list(seq)})
    return out


def long_items(tier):
    """year-long (and longer) curves: periodic step patterns from each month start of 2018-2019, so that every
    ISO-week / month / year boundary alignment of a full calendar year occurs (e.g. 29-31 December belonging to
    ISO week 1 of the next year while the curve also holds the first days of January)"""
    months = [(y, m) for y in (2018, 2019) for m in range(1, 13)]
    if tier == 'quick':
        months = [(2018, 1), (2018, 4), (2018, 9), (2019, 1), (2019, 7), (2019, 12)]
    lengths = [262] if tier == 'quick' else [250, 262, 300, 523]
    patterns = [['1.25', '0.8'], ['0.8', '1.25', '1'], ['2', '0.5', '1', '1']]
    out = []
    for (y, m) in months:
        for n in lengths:
            for pat in patterns:
                steps = [pat[i % len(pat)] for i in range(n - 1)]
                out.append({'start': datetime.date(y, m, 1).isoformat(), 'steps': steps})
    # five (thorough: ten) years of daily observations
    for n in (1300,) if tier == 'quick' else (1300, 2610):
        pat = patterns[1]
        out.append({'start': '2011-03-01', 'steps': [pat[i % len(pat)] for i in range(n - 1)]})
    return out


def run(tier, res, is_known):
    import qstrader.statistics.json_statistics  # noqa: import the heavy plotting stack once, before forking
    import qstrader.statistics.tearsheet  # noqa
    its = items(tier)
    res.rule = ('every equity curve grown from 100 by a step alphabet (x0.8, x1, x1.25, x2%s) up to %d observations '
                '(prefix-closed: every prefix of length >= 2 is itself a point) on 4 business-day calendars crossing a '
                'year end / leap-day month end / mid-year month end / new year: real performance functions, JSONStatistics '
                '(incl. to_file + reload) and TearsheetStatistics.get_results vs list-based definitions; metamorphic x2 '
                '(bit-for-bit) and x3.7; non-trivial = curve that is not flat' % (
                    ', x0.5' if tier != 'quick' else '', 6 if tier == 'quick' else 7))
    res.bounds = {'curves': len(its), 'starts': [str(s) for s in STARTS]}
    res.assumptions += [
        'drawdown definition is evaluated on the reported cumulative-return series itself (so zero / non-zero '
        'classification is not perturbed by float noise); that series is separately compared with the exact one',
        'weekly buckets: either (year, month, ISO week) or (ISO year, ISO week) accepted',
        'Sortino with identical negative returns: exact deviation 0 => inf; a float residue giving |value| > 1e9 accepted',
    ]
    product(point, its, res, is_known, label='curves', sample_every=503, chunk=8)
    if any(not is_known(v) for v in res.violations):
        return
    # moves of one part in a million: a drawdown of 1e-6 is a drawdown
    tiny_steps = ['0.999999', '1', '1.000001', '0.8', '1.25']
    tits = [{'start': STARTS[1].isoformat(), 'steps': list(seq)} for n in (1, 2, 3, 4)
            for seq in itertools.product(tiny_steps, repeat=n)]
    product(point, tits, res, is_known, label='curves with moves of 1e-6', sample_every=10 ** 9, chunk=8)
    if any(not is_known(v) for v in res.violations):
        return
    lits = long_items(tier)
    res.bounds['long_curves'] = len(lits)
    product(point, lits, res, is_known, label='year-long periodic curves', sample_every=10 ** 9, chunk=1)
    res.rule += ('; plus %d year-long (250-523 observations) periodic curves from month starts of 2018-2019' % len(lits))
    if any(not is_known(v) for v in res.violations):
        return
    rits = rendered_items(tier)
    product(rendered_point, rits, res, is_known, label='rendered tearsheets (strategy + benchmark on other dates)', chunk=1,
            sample_every=10 ** 9)
    res.rule += ('; plus %d rendered tearsheets (plot_results under the Agg backend): every number printed for the strategy and '
                 'for a benchmark that starts earlier / later / together with it equals the JSON export of that curve' % len(rits))


def replay(case):
    if case.get('kind') == 'rendered':
        return rendered_point(case)['viols']
    return point(case)['viols']
