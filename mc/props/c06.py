"""C06 - Market data is point-in-time: a price query never sees a later bar."""
import datetime
import itertools
import math
import os
import shutil
import warnings

import numpy as np
import pandas as pd

from .. import market
from ..brokermachine import close
from ..core import product
from ..env import scratch_dir

# rows decades apart: a file may span a century (offsets from the first bar must not wrap or lose precision)
WIDE = [datetime.date(1950, 1, 3), datetime.date(1969, 12, 31), datetime.date(2000, 2, 29), datetime.date(2038, 1, 20),
        datetime.date(2099, 12, 31)]
WINDOW = [datetime.date(2020, 2, 27), datetime.date(2020, 2, 28), datetime.date(2020, 2, 29),
          datetime.date(2020, 3, 2), datetime.date(2020, 3, 3)]
TIMES = [(0, 0, 0), (14, 29, 59), (14, 29, 59, 750000), (14, 30, 0), (14, 30, 0, 250000), (14, 30, 1), (20, 59, 59),
         (20, 59, 59, 600000), (21, 0, 0), (21, 0, 0, 400000), (21, 0, 1), (23, 59, 0)]
ONE = datetime.timedelta(days=1)


def _index(d):
    if d in WINDOW:
        return WINDOW.index(d)
    if d in WIDE:
        return 10 + WIDE.index(d)
    return 30 + (d.toordinal() % 9973)        # any other date (big files): distinct within any window of 27 years


def cell_values(i):
    """distinct per cell so that any mix-up is visible"""
    return 10.25 + 3 * i, 20.5 + 3 * i


def build_rows(dates, pattern):
    """pattern: per row 2 bits (open present, close present)."""
    rows = []
    for i, (d, (po, pc)) in enumerate(zip(dates, pattern)):
        o, c = cell_values(_index(d))
        rows.append((d, o if po else None, c if pc else None, (0.5 * c) if pc else None))
    return rows


def reference(rows, adjust):
    """observations in time order with forward fill; returns list of (datetime, value-or-nan)"""
    obs = []
    last = math.nan
    for d, o, c, a in sorted(rows, key=lambda r: r[0]):
        if adjust:
            o2 = (a / c * o) if (o is not None and c is not None and a is not None) else None
            c2 = a
        else:
            o2, c2 = o, c
        for hh, mm, v in ((14, 30, o2), (21, 0, c2)):
            if v is not None:
                last = v
            obs.append((datetime.datetime(d.year, d.month, d.day, hh, mm, tzinfo=datetime.timezone.utc), last))
    return obs


def ref_lookup(obs, t):
    ans = math.nan
    for when, v in obs:
        if when <= t:
            ans = v
        else:
            break
    return ans


def same(a, b):
    if isinstance(a, float) and math.isnan(a):
        return isinstance(b, float) and math.isnan(b) or (b is not None and b != b)
    try:
        if b != b:
            return False
    except Exception:
        return False
    return close(b, a)


def query_times(dates):
    """every day from 2 days before to 3 days after EACH row (for the 5-day window this is one contiguous range)"""
    days = set()
    for r in dates:
        for k in range(-2, 4):
            days.add(r + k * ONE)
    out = []
    for d in sorted(days):
        for hms in TIMES:
            out.append(datetime.datetime(d.year, d.month, d.day, *hms, tzinfo=datetime.timezone.utc))
    return out


def load(rows, order, adjust, directory):
    for f in os.listdir(directory):
        os.unlink(os.path.join(directory, f))
    market.write_csv(directory, 'AAA', [rows[i] for i in order])
    with warnings.catch_warnings():
        warnings.simplefilter('ignore')
        return market.load_source(directory, ['AAA'], adjust)


def evaluate(case, directory, differential=True):
    dates = [datetime.date.fromisoformat(d) for d in case['dates']]
    rows = build_rows(dates, case['pattern'])
    adjust = case['adjust']
    fails = []
    nq = 0
    try:
        src = load(rows, case['order'], adjust, directory)
    except Exception as e:  # noqa
        return [{'clause': 'C06.load_error', 'detail': {'error': repr(e)}, 'case': case}], 0, 0
    from qstrader.data.backtest_data_handler import BacktestDataHandler
    handler = BacktestDataHandler(None, data_sources=[src])
    obs = reference(rows, adjust)
    times = query_times(dates)
    answers = {}
    before_first = 0
    for t in times:
        ts = pd.Timestamp(t)
        want = ref_lookup(obs, t)
        nq += 1
        try:
            bid = src.get_bid(ts, 'EQ:AAA')
            ask = src.get_ask(ts, 'EQ:AAA')
        except Exception as e:  # noqa
            fails.append({'clause': 'C06.query_error', 'detail': {'t': str(t), 'error': repr(e)}, 'case': case})
            break
        answers[t] = bid
        if t < obs[0][0]:
            before_first += 1
        if not same(want, bid) or not same(want, ask):
            sig = 'before-first-bar' if t < obs[0][0] else None
            fails.append({'clause': 'C06.lookup', 'signature': sig, 'case': case,
                          'detail': {'t': str(t), 'bid': float(bid), 'ask': float(ask), 'expected': want,
                                     'rows': [[str(r[0]), r[1], r[2], r[3]] for r in rows], 'adjust': adjust}})
            if len(fails) > 3:
                break
            continue
        hb = handler.get_asset_latest_bid_price(ts, 'EQ:AAA')
        ha = handler.get_asset_latest_ask_price(ts, 'EQ:AAA')
        hba = handler.get_asset_latest_bid_ask_price(ts, 'EQ:AAA')
        hm = handler.get_asset_latest_mid_price(ts, 'EQ:AAA')
        if not (same(want, hb) and same(want, ha) and same(want, hba[0]) and same(want, hba[1]) and same(want, hm)):
            fails.append({'clause': 'C06.handler_agreement', 'case': case,
                          'detail': {'t': str(t), 'source': float(bid), 'handler_bid': float(hb), 'handler_ask': float(ha),
                                     'handler_bid_ask': [float(x) for x in hba], 'handler_mid': float(hm)}})
            break
    nload = 1
    if not fails:
        # the answer is a function of (dataset, t) only: asking in another ORDER, on a source object that has
        # not answered these questions before, must give the same answers (descending and far/near zig-zag)
        zig = []
        lo, hi = 0, len(times) - 1
        while lo <= hi:
            zig.append(times[hi])
            if lo != hi:
                zig.append(times[lo])
            lo, hi = lo + 1, hi - 1
        passes = [('descending', times[::-1])]
        if case['order'] == sorted(case['order']) and (len(case['dates']) <= 3 or case.get('differential')):
            # (the order of the rows in the file and the order of the questions are independent dimensions)
            passes += [('zigzag', zig), ('other zones', times)]
        for order_name, seq in passes:
            market.clear_caches()
            try:
                src3 = load(rows, case['order'], adjust, directory)
            except Exception as e:  # noqa
                fails.append({'clause': 'C06.load_error', 'detail': {'error': repr(e)}, 'case': case})
                break
            nload += 1
            for k3, t in enumerate(seq):
                nq += 1
                q3 = pd.Timestamp(t)
                if order_name == 'other zones':
                    # the same instant written in a zone east / west of UTC
                    q3 = q3.tz_convert(('Europe/Berlin', 'America/New_York', 'Asia/Tokyo')[k3 % 3])
                v3 = src3.get_bid(q3, 'EQ:AAA')
                a3 = src3.get_ask(q3, 'EQ:AAA')
                if not same(float(answers[t]), v3) or not same(float(answers[t]), a3):
                    fails.append({'clause': 'C06.depends_on_query_order', 'case': case,
                                  'detail': {'t': str(t), 'query_order': order_name, 'ascending_answer': float(answers[t]),
                                             'this_answer': [float(v3), float(a3)]}})
                    break
            if fails:
                break
    if differential and not fails:
        # point-in-time without any expected value: the answer at t on the full file equals the answer
        # on the file truncated to the rows dated <= t's date
        for cut in sorted(set(dates)):
            keep = [r for r in rows if r[0] <= cut]
            if len(keep) == len(rows):
                continue
            order = [i for i in range(len(keep))]
            try:
                src2 = load(keep, order, adjust, directory)
            except Exception as e:  # noqa
                fails.append({'clause': 'C06.load_error', 'detail': {'error': repr(e), 'truncated_to': str(cut)},
                              'case': case})
                break
            nload += 1
            nxt = min([d for d in dates if d > cut])
            for t in times:
                if not (cut <= t.date() < nxt):
                    continue
                nq += 1
                v2 = src2.get_bid(pd.Timestamp(t), 'EQ:AAA')
                if not same(float(answers[t]), v2):
                    fails.append({'clause': 'C06.future_rows_matter', 'case': case,
                                  'detail': {'t': str(t), 'full_file': float(answers[t]), 'truncated_file': float(v2),
                                             'truncated_to': str(cut)}})
                    break
            if fails:
                break
    market.clear_caches()
    return fails, nq, before_first


def point(case):
    d = scratch_dir('qsc06-')
    try:
        fails, nq, bf = evaluate(case, d, differential=case.get('differential', True))
    finally:
        shutil.rmtree(d, ignore_errors=True)
    gaps = any((b - a).days > 1 for a, b in zip(case['dates'] and [datetime.date.fromisoformat(x) for x in case['dates']],
                                                [datetime.date.fromisoformat(x) for x in case['dates']][1:]))
    missing = any(not (a and b) for a, b in case['pattern'])
    return {'viols': fails, 'execs': 1, 'evals': nq, 'nontrivial': gaps or missing or case['order'] != sorted(case['order']),
            'outcome': (tuple(case['dates']), tuple(map(tuple, case['pattern'])), case['adjust']),
            'counters': {'queries': nq, 'queries_before_first_bar': bf},
            'sample': case}


def two_source_point(case):
    """Handler over two sources: first non-NaN source value wins; unknown asset in a source is skipped."""
    from qstrader.data.backtest_data_handler import BacktestDataHandler
    d1, d2 = scratch_dir('qsc06a-'), scratch_dir('qsc06b-')
    fails, nq = [], 0
    try:
        rows_x = build_rows(WINDOW[:4], [(1, 1)] * 4)
        start = case['second_starts']
        rows_y = [(d, o + 100, c + 100, 0.5 * (c + 100)) for d, o, c, a in build_rows(WINDOW[start:], [(1, 1)] * (5 - start))]
        rows_y2 = [(d, o + 500, c + 500, 0.5 * (c + 500)) for d, o, c, a in build_rows(WINDOW[case['alt_starts']:],
                                                                                 [(1, 1)] * (5 - case['alt_starts']))]
        market.write_csv(d1, 'XXX', rows_x)
        market.write_csv(d1, 'YYY', rows_y)
        market.write_csv(d2, 'YYY', rows_y2)
        with warnings.catch_warnings():
            warnings.simplefilter('ignore')
            s1 = market.load_source(d1, None, case['adjust'])
            s2 = market.load_source(d2, None, case['adjust'])
        order = [s1, s2] if case['first'] == 1 else [s2, s1]
        handler = BacktestDataHandler(None, data_sources=order)
        refs = {('s1', 'EQ:XXX'): reference(rows_x, case['adjust']), ('s1', 'EQ:YYY'): reference(rows_y, case['adjust']),
                ('s2', 'EQ:YYY'): reference(rows_y2, case['adjust'])}
        names = ['s1', 's2'] if case['first'] == 1 else ['s2', 's1']
        for t in query_times(WINDOW):
            ts = pd.Timestamp(t)
            for asset in ('EQ:XXX', 'EQ:YYY'):
                want = math.nan
                for nm in names:
                    obs = refs.get((nm, asset))
                    if obs is None:
                        continue
                    v = ref_lookup(obs, t)
                    if not math.isnan(v):
                        want = v
                        break
                nq += 1
                got = [handler.get_asset_latest_bid_price(ts, asset), handler.get_asset_latest_ask_price(ts, asset),
                       handler.get_asset_latest_mid_price(ts, asset)] + list(handler.get_asset_latest_bid_ask_price(ts, asset))
                if not all(same(want, g) for g in got):
                    fails.append({'clause': 'C06.handler_two_sources', 'case': dict(case, kind='two'),
                                  'signature': 'before-first-bar' if math.isnan(want) else None,
                                  'detail': {'t': str(t), 'asset': asset, 'expected': want, 'got': [float(g) for g in got]}})
                    break
            if fails:
                break
    except Exception as e:  # noqa
        fails.append({'clause': 'C06.load_error', 'detail': {'error': repr(e)}, 'case': dict(case, kind='two')})
    finally:
        market.clear_caches()
        shutil.rmtree(d1, ignore_errors=True)
        shutil.rmtree(d2, ignore_errors=True)
    return {'viols': fails, 'execs': 1, 'evals': nq, 'nontrivial': True, 'outcome': tuple(sorted(case.items())),
            'counters': {'queries': nq}}


def twin_point(case):
    """Two (three) assets of ONE data source whose files have the same first date, last date and number of rows but
    different days in between, asked one after the other at every instant (in both orders): an answer for one asset
    must not be found with another asset's calendar."""
    d = scratch_dir('qsc06t-')
    fails, nq = [], 0
    try:
        names = ['XXX', 'YYY', 'ZZZ']
        rows = {}
        for nm, idx in zip(names, case['calendars']):
            dates = [WINDOW[i] for i in idx]
            base = build_rows(dates, [(1, 1)] * len(dates))
            shift = 100.0 * names.index(nm)
            rows[nm] = [(dd, o + shift, c + shift, 0.5 * (c + shift)) for dd, o, c, a in base]
            market.write_csv(d, nm, rows[nm])
        with warnings.catch_warnings():
            warnings.simplefilter('ignore')
            src = market.load_source(d, None, case['adjust'])
        refs = {nm: reference(rows[nm], case['adjust']) for nm in rows}
        order = list(rows)
        if case['reverse']:
            order = order[::-1]
        for t in query_times(WINDOW):
            ts = pd.Timestamp(t)
            for nm in order:
                want = ref_lookup(refs[nm], t)
                nq += 1
                got = [src.get_bid(ts, 'EQ:' + nm), src.get_ask(ts, 'EQ:' + nm)]
                if not all(same(want, g) for g in got):
                    fails.append({'clause': 'C06.lookup', 'case': dict(case, kind='twin'),
                                  'detail': {'t': str(t), 'asset': nm, 'expected': want, 'got': [float(g) for g in got],
                                             'asked_just_before': order[order.index(nm) - 1] if order.index(nm) else None,
                                             'calendars': case['calendars']}})
                    break
            if fails:
                break
    except Exception as e:  # noqa
        fails.append({'clause': 'C06.load_error', 'detail': {'error': repr(e)}, 'case': dict(case, kind='twin')})
    finally:
        market.clear_caches()
        shutil.rmtree(d, ignore_errors=True)
    return {'viols': fails, 'execs': 1, 'evals': nq, 'nontrivial': True, 'outcome': ('twin', repr(sorted(case.items()))),
            'counters': {'queries': nq}}


def interleave_point(case):
    """EVERY sequence of three questions (asset, instant) to ONE freshly loaded data source holding two assets with
    different calendars - the questions go back and forth in time and between the assets in every possible way -
    each answer compared with the point-in-time reference.  An answer must not depend on what was asked before."""
    d = scratch_dir('qsc06i-')
    fails, nq, nseq = [], 0, 0
    try:
        names = ['XXX', 'YYY']
        rows = {}
        for nm, idx in zip(names, case['calendars']):
            dates = [WINDOW[i] for i in idx]
            base = build_rows(dates, [(1, 1)] * len(dates))
            shift = 100.0 * names.index(nm)
            rows[nm] = [(dd, o + shift, c + shift, 0.5 * (c + shift)) for dd, o, c, a in base]
            market.write_csv(d, nm, rows[nm])
        refs = {nm: reference(rows[nm], case['adjust']) for nm in rows}
        days = [WINDOW[0] - ONE] + list(WINDOW)
        instants = [datetime.datetime(x.year, x.month, x.day, h, m, tzinfo=datetime.timezone.utc)
                    for x in days for (h, m) in case['times']]
        alphabet = [(nm, t) for nm in names for t in instants]
        want = {(nm, t): ref_lookup(refs[nm], t) for nm, t in alphabet}
        first = alphabet[case['first']]
        for q2 in alphabet:
            for q3 in alphabet:
                with warnings.catch_warnings():
                    warnings.simplefilter('ignore')
                    src = market.load_source(d, None, case['adjust'])
                nseq += 1
                for k, (nm, t) in enumerate((first, q2, q3)):
                    ts = pd.Timestamp(t)
                    nq += 1
                    got = [src.get_bid(ts, 'EQ:' + nm), src.get_ask(ts, 'EQ:' + nm)]
                    if not all(same(want[(nm, t)], g) for g in got):
                        fails.append({'clause': 'C06.depends_on_earlier_questions', 'case': dict(case, kind='interleave'),
                                      'detail': {'questions': [[a, str(u)] for a, u in (first, q2, q3)][:k + 1],
                                                 'expected': want[(nm, t)], 'got': [float(g) for g in got],
                                                 'calendars': case['calendars']}})
                        break
                market.clear_caches()
                if fails:
                    break
            if fails:
                break
    except Exception as e:  # noqa
        fails.append({'clause': 'C06.load_error', 'detail': {'error': repr(e)}, 'case': dict(case, kind='interleave')})
    finally:
        market.clear_caches()
        shutil.rmtree(d, ignore_errors=True)
    return {'viols': fails, 'execs': nseq, 'evals': nq, 'nontrivial': True,
            'outcome': ('interleave', repr(sorted(case.items()))), 'counters': {'queries': nq, 'question_sequences': nseq}}


def interleave_items(tier):
    times = [[15, 0]] if tier == 'quick' else [[14, 30], [21, 0]]
    cals = [([0, 1, 3, 4], [1, 2, 4])] if tier == 'quick' else [([0, 1, 3, 4], [1, 2, 4]), ([1, 3], [0, 2, 3, 4])]
    n = 2 * 6 * len(times)
    return [{'calendars': [list(x) for x in c], 'adjust': adj, 'times': times, 'first': k}
            for c in cals for adj in (False, True) for k in range(n)]


def twin_items():
    cals = [([0, 1, 3, 4], [0, 2, 3, 4]), ([0, 1, 4], [0, 3, 4]), ([0, 1, 2, 4], [0, 1, 3, 4], [0, 2, 3, 4]), ([0, 2, 4], [0, 1, 4])]
    return [{'calendars': [list(x) for x in c], 'adjust': adj, 'reverse': rev} for c in cals for adj in (False, True)
            for rev in (False, True)]


def items(tier):
    out = []
    for k in (1, 2, 3, 4):
        for dates in itertools.combinations(WINDOW, k):
            pats = list(itertools.product([(1, 1), (0, 1), (1, 0), (0, 0)], repeat=k))
            if tier == 'quick' and k >= 3:
                # quick: at most one incomplete row per dataset for 3-4 rows (all positions, all kinds)
                pats = [p for p in pats if sum(1 for x in p if x != (1, 1)) <= 1]
            for pat in pats:
                if k <= 3:
                    orders = list(itertools.permutations(range(k)))
                else:
                    orders = [(0, 1, 2, 3), (3, 2, 1, 0), (1, 2, 3, 0)]
                if tier == 'quick':
                    orders = orders[:1] + orders[-1:] if k > 1 else orders
                for order in orders:
                    for adjust in (False, True):
                        out.append({'dates': [d.isoformat() for d in dates], 'pattern': [list(p) for p in pat],
                                    'order': list(order), 'adjust': adjust,
                                    'differential': tier == 'thorough' or list(order) == sorted(order)})
    return out


def wide_items():
    out = []
    for k in (2, 3):
        for dates in itertools.combinations(WIDE, k):
            for pat in ([(1, 1)] * k, [(1, 1)] * (k - 1) + [(0, 1)]):
                for adjust in (False, True):
                    out.append({'dates': [d.isoformat() for d in dates], 'pattern': [list(x) for x in pat],
                                'order': list(range(k))[::-1], 'adjust': adjust, 'differential': True})
    return out


def big_items(tier):
    """files of 700 (thorough: 1 300 and 2 700) consecutive business-day rows, written newest first, a few missing cells"""
    out = []
    for n in (700,) if tier == "quick" else (1300, 2700):
        dates, d = [], datetime.date(2009, 1, 5)
        while len(dates) < n:
            if d.weekday() < 5:
                dates.append(d)
            d += datetime.timedelta(days=1)
        pat = [[1, 1] if i % 211 else [0, 1] for i in range(n)]
        pat[0] = [1, 1]
        for adjust in (False, True):
            out.append({'dates': [x.isoformat() for x in dates], 'pattern': pat, 'order': list(range(n))[::-1], 'adjust': adjust,
                        'differential': False})
    return out


def two_items():
    out = []
    for second in (1, 2, 3):
        for alt in (0, 2, 4):
            for first in (1, 2):
                for adjust in (False, True):
                    out.append({'second_starts': second, 'alt_starts': alt, 'first': first, 'adjust': adjust})
    return out


def run(tier, res, is_known):
    its = items(tier)
    res.rule = ('every dataset = non-empty subset (<= 4 rows) of a 5-day window with weekend/leap-day gaps x per-row '
                'missing-cell pattern x row order in the file x adjusted/unadjusted, loaded by the real '
                'CSVDailyBarDataSource; every query instant from 2 days before the first row to 3 days after the last x 8 '
                'times of day is compared with a list-based point-in-time reference, the handler views, and (differential) '
                'the same query on the file truncated to rows dated <= t; non-trivial = dataset with a gap, a missing cell '
                'or unsorted rows')
    res.bounds = {'datasets': len(its), 'window': [str(d) for d in WINDOW], 'times_of_day': TIMES}
    res.assumptions += ['adjusted mode: a row whose Close is missing has Adj Close missing too (lone-missing Close with Adj '
                        'Close present is not defined by the statement and excluded)',
                        'adjusted open is missing when its scale factor is unknown']
    product(point, its, res, is_known, label='datasets', sample_every=811, chunk=8)
    product(two_source_point, two_items(), res, is_known, label='two sources / two assets')
    product(twin_point, twin_items(), res, is_known, label='assets whose files differ only in the days in between')
    product(interleave_point, interleave_items(tier), res, is_known,
            label='every sequence of three questions (two assets, back and forth in time) to one source')
    product(point, wide_items(), res, is_known, label='files spanning decades', chunk=2)
    product(point, big_items(tier), res, is_known, label='files of thousands of rows', chunk=1, sample_every=10 ** 9)
    res.transitions = res.extra.get('queries', res.transitions)


def replay(case):
    if case.get('kind') == 'two':
        c = {k: v for k, v in case.items() if k != 'kind'}
        return two_source_point(c)['viols']
    if case.get('kind') == 'interleave':
        return interleave_point({k: v for k, v in case.items() if k != 'kind'})['viols']
    if case.get('kind') == 'twin':
        return twin_point({k: v for k, v in case.items() if k != 'kind'})['viols']
    return point(case)['viols']
