"""C12 - The simulation clock is strictly increasing and covers exactly business days.
(The enumeration loop is shared with C13, see calendar_items.)"""
import datetime

import pandas as pd

from .. import refmodel as rm
from ..core import product

UTC = datetime.timezone.utc
QUICK_WINDOW = (datetime.date(2019, 12, 20), datetime.date(2021, 3, 10))
QUICK_N = list(range(0, 10)) + list(range(27, 34)) + list(range(59, 63))
THOROUGH_N = list(range(0, 10)) + list(range(28, 32))
# the last two carry seconds / a sub-second part (a start derived from now(), or 'end minus a year'): every event
# must still fall on the whole documented minute
START_TIMES = [(0, 0), (9, 15), (14, 30), (9, 15, 30), (0, 0, 0, 250000)]


def ts(d, hm):
    return pd.Timestamp(datetime.datetime(d.year, d.month, d.day, *hm), tz='UTC')


def start_dates(tier):
    if tier == 'quick':
        # plus a window across the Unix epoch (dates before 1970 have negative epoch arithmetic)
        return list(rm.daterange(*QUICK_WINDOW)) + list(rm.daterange(datetime.date(1969, 12, 15), datetime.date(1970, 1, 10)))
    # the 28-year Gregorian weekday/leap cycle, plus the century non-leap February 2100
    out = list(rm.daterange(datetime.date(2001, 1, 1), datetime.date(2028, 12, 31)))
    out += list(rm.daterange(datetime.date(2100, 2, 20), datetime.date(2100, 3, 5)))
    out += list(rm.daterange(datetime.date(1969, 11, 1), datetime.date(1970, 2, 28)))
    out += list(rm.daterange(datetime.date(1900, 2, 20), datetime.date(1900, 3, 5)))
    return out


def calendar_items(tier):
    """One item per start date; the worker enumerates n x start time x end time."""
    ns = QUICK_N if tier == 'quick' else THOROUGH_N
    items = [(d.toordinal(), tuple(ns)) for d in start_dates(tier)]
    if tier == 'thorough':
        items += [(d.toordinal(), tuple(QUICK_N)) for d in rm.daterange(*QUICK_WINDOW)]
    return items


def long_items(tier):
    """ranges of one to three years from the first of a month (year-blocks, ISO week 1 / week 53 collisions, two
    Decembers, leap days inside) - one item per start"""
    months = [(y, m) for y in range(2014, 2022) for m in range(1, 13)]
    if tier == 'quick':
        months = [(y, m) for (y, m) in months if (y * 12 + m) % 5 == 0]
    out = [(datetime.date(y, m, 1).toordinal(), (366, 735) if tier == 'quick' else (366, 400, 735, 1100)) for y, m in months]
    # a decade (thorough: also three decades) in one range
    out += [(datetime.date(2011, 3, 1).toordinal(), (3700,) if tier == 'quick' else (3700, 11000))]
    return out


def per_long_start(item):
    d0 = datetime.date.fromordinal(item[0])
    viols, n, nev = [], 0, 0
    for k in item[1]:
        d1 = d0 + datetime.timedelta(days=k)
        for pre, post in ((False, False), (True, True)):
            f, ne = check_range(ts(d0, (0, 0)), ts(d1, (23, 59)), pre, post)
            n += 1
            nev += ne
            viols += f
    return {'viols': viols[:6], 'execs': n, 'evals': n, 'nontrivial': True, 'outcome': None,
            'counters': {'ranges': n, 'clock_events_checked': nev, 'long_ranges': n}}


def check_range(start, end, pre, post):
    from qstrader.simulation.daily_bday import DailyBusinessDaySimulationEngine
    case = {'start': str(start), 'end': str(end), 'pre': pre, 'post': post}
    fails = []
    try:
        eng = DailyBusinessDaySimulationEngine(start, end, pre_market=pre, post_market=post)
        evs = [(e.ts, e.event_type) for e in eng]
    except Exception as e:  # noqa
        return [{'clause': 'C12.unexpected_error', 'detail': {'error': repr(e)}, 'case': case}], 0
    # the engine object can be iterated more than once, and an abandoned iteration must not matter
    # (checked on ranges of up to 45 days; the long ones would only repeat it at three times the cost)
    again = third = evs
    if (end - start).days <= 45:
        try:
            eng2 = DailyBusinessDaySimulationEngine(start, end, pre_market=pre, post_market=post)
            it = iter(eng2)                         # a FRESH engine is peeked at first (iteration abandoned) ...
            [next(it, None) for _ in range(3)]
            again = [(e.ts, e.event_type) for e in eng2]       # ... then iterated in full
            third = [(e.ts, e.event_type) for e in eng]        # and the first engine a second time
        except Exception as e:  # noqa
            return [{'clause': 'C12.unexpected_error', 'detail': {'error': repr(e), 'on': 're-iteration'}, 'case': case}], 0
    if again != evs or third != evs:
        fails.append({'clause': 'C12.reiteration', 'case': case,
                      'detail': {'first_pass': len(evs), 'after_a_peek': len(again), 'third_pass': len(third)}})
    want = rm.clock_events(start.date(), end.date(), pre, post)
    got = []
    for t, typ in evs:
        py = rm.to_py(t)
        if py is None:
            fails.append({'clause': 'C12.timezone', 'detail': {'event': str(t)}, 'case': case})
            return fails, len(evs)
        got.append((py, typ))
    if got != want:
        diff = next((i for i, (a, b) in enumerate(zip(got, want)) if a != b), min(len(got), len(want)))
        fails.append({'clause': 'C12.event_stream', 'case': case,
                      'detail': {'first_difference_at': diff, 'got': [str(x) for x in got[diff:diff + 3]],
                                 'want': [str(x) for x in want[diff:diff + 3]], 'n_got': len(got), 'n_want': len(want)}})
    for (a, _), (b, _) in zip(evs, evs[1:]):
        if not (a < b):
            fails.append({'clause': 'C12.strictly_increasing', 'detail': {'a': str(a), 'b': str(b)}, 'case': case})
            break
    return fails, len(evs)


def check_reversed(start, end):
    from qstrader.simulation.daily_bday import DailyBusinessDaySimulationEngine
    case = {'start': str(start), 'end': str(end), 'reversed': True}
    try:
        DailyBusinessDaySimulationEngine(start, end)
        return [{'clause': 'C12.reversed_range_accepted', 'detail': case, 'case': case}]
    except ValueError:
        return []
    except Exception as e:  # noqa
        return [{'clause': 'C12.reversed_range_error_type', 'detail': {'error': repr(e)}, 'case': case}]


def per_start(item):
    d0 = datetime.date.fromordinal(item[0])
    viols, n, nev, shapes = [], 0, 0, set()
    for k in item[1]:
        d1 = d0 + datetime.timedelta(days=k)
        for st in START_TIMES:
            for et in (st, (23, 59)):
                start, end = ts(d0, st), ts(d1, et)
                for pre in (False, True):
                    for post in (False, True):
                        f, ne = check_range(start, end, pre, post)
                        n += 1
                        nev += ne
                        viols += f
                        shapes.add((d0.weekday(), k, ne))
        if len(viols) > 10:
            break
    # end < start is refused
    for st in START_TIMES:
        start = ts(d0, st)
        for delta in (pd.Timedelta(minutes=1), pd.Timedelta(days=1), pd.Timedelta(days=31)):
            viols += check_reversed(start, start - delta)
            n += 1
    return {'viols': viols[:10], 'execs': n, 'evals': n, 'nontrivial': nev > 0, 'outcome': None,
            'counters': {'ranges': n, 'clock_events_checked': nev}, 'sets': {'shapes': shapes},
            'sample': {'start_date': str(d0), 'ranges': n, 'events': nev}}


ENV_ZONES = ['Asia/Tokyo', 'America/New_York', 'Europe/London', 'Pacific/Kiritimati']
ENV_STARTS = [datetime.date(2020, 1, 13), datetime.date(2020, 3, 27), datetime.date(2020, 7, 6), datetime.date(2020, 10, 30)]


def env_items(tier):
    ns = (0, 1, 4, 9) if tier == 'quick' else tuple(range(0, 10))
    return [(z, d.toordinal(), ns) for z in ENV_ZONES for d in ENV_STARTS]


def per_env_start(item):
    """the same enumeration in a process whose LOCAL time zone is not UTC"""
    z, o, ns = item
    with rm.process_tz(z):
        out = per_start((o, ns))
    for v in out['viols']:
        v['case'] = dict(v.get('case', {}), process_tz=z)
    out['counters'] = dict(out.get('counters', {}), ranges_in_other_process_zones=out['counters'].get('ranges', 0))
    return out


SEQ_RANGES = [(0, 4), (0, 25), (7, 11), (14, 18), (21, 32), (9, 23), (2, 30)]      # (first day, last day) offsets in a window


def sequence_items(tier):
    """ordered triples (quick) / quadruples (thorough) of ranges inside one six-week window, each sequence in its own
    process: what a clock emits must not depend on which clocks were built or iterated before it"""
    import itertools
    k = 3 if tier == 'quick' else 4
    return [seq for seq in itertools.product(range(len(SEQ_RANGES)), repeat=k) if len(set(seq)) == k]


def per_sequence(seq):
    d0 = datetime.date(2019, 1, 7)
    viols, n, nev = [], 0, 0
    for idx in seq:
        a, b = SEQ_RANGES[idx]
        f, ne = check_range(ts(d0 + datetime.timedelta(days=a), (0, 0)), ts(d0 + datetime.timedelta(days=b), (23, 59)), False, False)
        n += 1
        nev += ne
        for v in f:
            v['case'] = dict(v.get('case', {}), after_ranges=[list(SEQ_RANGES[i]) for i in seq[:seq.index(idx)]])
        viols += f
        if viols:
            break
    return {'viols': viols[:4], 'execs': n, 'evals': n, 'nontrivial': True, 'outcome': None,
            'counters': {'ranges': n, 'clock_events_checked': nev, 'construction_sequences': 1}}


def future_items(tier):
    """windows after the day the check runs (nothing the clock emits may depend on the wall clock): one straddling
    today, one far ahead"""
    today = datetime.date.today()
    ns = (0, 1, 4, 9, 30) if tier == 'quick' else tuple(range(0, 10)) + (30, 61)
    starts = [today + datetime.timedelta(days=k) for k in (-12, -3, -1, 0, 1, 2, 5)]
    starts += list(rm.daterange(datetime.date(2090, 2, 24), datetime.date(2090, 3, 3)))
    return [(d.toordinal(), ns) for d in starts]


def run(tier, res, is_known):
    its = calendar_items(tier)
    res.rule = ('every start date of the window x range lengths n x start time {00:00, 09:15, 14:30, 09:15:30, 00:00:00.25} x end time {same, '
                '23:59} x 4 pre/post flag combinations: the real engine is iterated and compared event by event with '
                'an independent datetime.date calendar; plus end < start refusals; transitions = clock events '
                'compared; distinct = (weekday of start, length, number of events) shapes')
    res.bounds = {'start_dates': len(its), 'first': str(datetime.date.fromordinal(its[0][0])),
                  'last': str(datetime.date.fromordinal(its[-1][0])), 'n_days': QUICK_N if tier == 'quick' else THOROUGH_N}
    res.assumptions += ["end time-of-day is never before the start's (as the property's quantifier says)"]
    product(per_start, its, res, is_known, label='calendar', sample_every=97, chunk=4)
    if any(not is_known(v) for v in res.violations):
        return
    product(per_long_start, long_items(tier), res, is_known, label='ranges of 1-3 years', chunk=1)
    if any(not is_known(v) for v in res.violations):
        return
    product(per_sequence, sequence_items(tier), res, is_known, label='sequences of clocks in one process', chunk=1,
            sample_every=10 ** 9)
    product(per_env_start, env_items(tier), res, is_known, label='process-local time zone other than UTC', chunk=1)
    product(per_start, future_items(tier), res, is_known, label='windows around and after the day of the run', chunk=2)
    res.transitions = res.extra.get('clock_events_checked', 0)
    res.states = res.extra.get('ranges', 0)
    shapes = res.extra.pop('shapes', set())
    res.nontrivial = set(shapes)
    res.outcomes = set(shapes)


def replay(case):
    if case.get('process_tz'):
        with rm.process_tz(case['process_tz']):
            return replay({k: v for k, v in case.items() if k != 'process_tz'})
    if case.get('after_ranges'):
        d0 = datetime.date(2019, 1, 7)
        for a, b in case['after_ranges']:
            check_range(ts(d0 + datetime.timedelta(days=a), (0, 0)), ts(d0 + datetime.timedelta(days=b), (23, 59)), False, False)
    start, end = pd.Timestamp(case['start']), pd.Timestamp(case['end'])
    if case.get('reversed'):
        return check_reversed(start, end)
    return check_range(start, end, case['pre'], case['post'])[0]
