"""C10 - Long-only sizing never budgets more than the cash-buffered equity."""
import itertools
from fractions import Fraction

import numpy as np
import pandas as pd

from ..brokermachine import F, make_fee
from ..core import product

DT = pd.Timestamp('2020-03-02 21:00:00', tz='UTC')
WEIGHTS = ['0', '0.1', '1/3', '0.5', '1', '2.5']
ASKS = ['0.37', '1', '9.99', '33.3349', '101.5', '2345.67']      # 33.3349: sub-cent digits (adjusted prices)
EQUITIES = ['1', '999.99', '10007', '1000000.01']
BUFFERS = ['0', '0.05', '0.5', '1']
RATES = ['0', '0.001', '0.3']
ASSETS = ['EQ:AAA', 'EQ:BBB', 'EQ:CCC']


class PriceStub(object):
    def __init__(self):
        self.ask = {}

    def get_asset_latest_ask_price(self, dt, asset):
        return self.ask.get(asset, np.nan)

    fair = False     # phase 6 trades through the broker: then bid = mid = ask, so that marking does not move the equity

    def get_asset_latest_bid_price(self, dt, asset):
        if self.fair:
            return self.ask.get(asset, np.nan)
        return 0.0   # a sizer that reads the bid sizes against nothing

    def get_asset_latest_bid_ask_price(self, dt, asset):
        if self.fair:
            return (self.ask.get(asset, np.nan), self.ask.get(asset, np.nan))
        return (0.0, self.ask.get(asset, np.nan))

    def get_asset_latest_mid_price(self, dt, asset):
        if self.fair:
            return self.ask.get(asset, np.nan)
        return self.ask.get(asset, np.nan) / 2.0


def fw(s):
    return Fraction(s)


def make_broker(equity, rate, dh):
    from qstrader.broker.simulated_broker import SimulatedBroker
    from qstrader.exchange.simulated_exchange import SimulatedExchange
    fee = ('zero',) if rate == '0' else ('pct', rate, '0')
    b = SimulatedBroker(DT, SimulatedExchange(DT), dh, initial_funds=float(fw(equity)), fee_model=make_fee(fee))
    b.create_portfolio('p')
    b.subscribe_funds_to_portfolio('p', float(fw(equity)))
    return b


def check_call(sizer, dh, equity, buf, rate, ws, ps, shared=None, reverse=False):
    """One real call; returns (fails, ambiguous, outcome)."""
    n = len(ws)
    assets = ASSETS[:n] if n <= len(ASSETS) else ['EQ:W%02d' % i for i in range(n)]
    dh.ask = {a: float(fw(p)) for a, p in zip(assets, ps)}
    # whole-number weights are passed as python ints, the others as floats (both are legal weight types)
    weights = {a: (int(fw(w)) if fw(w).denominator == 1 else float(fw(w))) for a, w in zip(assets, ws)}
    case = {'kind': 'size', 'equity': str(equity), 'buffer': buf, 'rate': rate, 'weights': list(ws), 'asks': list(ps)}
    if reverse:
        # the same mapping, keyed in the opposite order (a caller's dict need not be sorted by symbol)
        weights = dict(reversed(list(weights.items())))
        case['reverse'] = True
    try:
        if shared is not None:
            # the caller keeps ONE weights dictionary and edits it in place between calls
            shared.clear()
            shared.update(weights)
            got = sizer(DT, shared)
        else:
            got = sizer(DT, dict(weights))
    except Exception as e:  # noqa
        return [{'clause': 'C10.unexpected_error', 'detail': {'error': repr(e)}, 'case': case}], 0, None
    fails, amb = [], 0
    if set(got.keys()) != set(assets):
        return [{'clause': 'C10.keys', 'detail': {'got': sorted(got), 'want': assets}, 'case': case}], 0, None
    E, b, r = fw(equity), fw(buf), fw(rate)
    W = sum(fw(w) for w in ws)
    total = Fraction(0)
    for a, w, p in zip(assets, ws, ps):
        q = got[a].get('quantity') if isinstance(got[a], dict) else None
        if not isinstance(q, (int, np.integer)) or isinstance(q, bool) or q < 0:
            fails.append({'clause': 'C10.whole_nonnegative', 'detail': {'asset': a, 'quantity': repr(q)}, 'case': case})
            continue
        w, p = fw(w), fw(p)
        alloc = (1 - b) * E * (w / W if W != 0 else w)
        fee = r * abs(alloc)
        tol = Fraction(1, 10**9) * max(1, alloc)
        lo_ok = q * p + fee <= alloc + tol
        hi_ok = (q + 1) * p + fee > alloc - tol
        if (lo_ok and q * p + fee > alloc) or (hi_ok and (q + 1) * p + fee <= alloc):
            amb += 1       # tolerance actually used
        if not lo_ok:
            fails.append({'clause': 'C10.over_budget', 'detail': {'asset': a, 'quantity': int(q), 'price': float(p),
                                                                  'est_fee': float(fee), 'allocation': float(alloc)},
                          'case': case})
        if not hi_ok:
            fails.append({'clause': 'C10.not_maximal', 'detail': {'asset': a, 'quantity': int(q), 'price': float(p),
                                                                  'est_fee': float(fee), 'allocation': float(alloc)},
                          'case': case})
        total += q * p
    if not fails and total > (1 - b) * E + Fraction(1, 10**6):
        fails.append({'clause': 'C10.total_over_budget', 'detail': {'total': float(total), 'budget': float((1 - b) * E)},
                      'case': case})
    if W == 0 and any(got[a]['quantity'] != 0 for a in assets):
        fails.append({'clause': 'C10.zero_weights', 'detail': {'got': repr(got)}, 'case': case})
    return fails, amb, tuple(int(got[a]['quantity']) for a in assets)


def group(item):
    """One (equity, buffer, rate, price vector): every weight vector, in order, on ONE sizer object
    (a sizer is called again and again with new weights in real use), each call judged on its own."""
    from qstrader.portcon.order_sizer.dollar_weighted import DollarWeightedCashBufferedOrderSizer
    equity, buf, rate, ps = item
    dh = PriceStub()
    broker = make_broker(equity, rate, dh)
    sizer = DollarWeightedCashBufferedOrderSizer(broker, 'p', dh, cash_buffer_percentage=float(fw(buf)))
    viols, amb, n, outs, nz = [], 0, 0, set(), 0
    # phase 1: every weight vector at prices ps; phase 2: the quotes change (same timestamp) and every weight
    # vector again; phase 3: a SUBSET of the assets is sized; phase 4: half of the funds are withdrawn (same
    # timestamp) and sizing must follow the new equity.  All on the one sizer / broker pair.
    ps2 = tuple(ASKS[(ASKS.index(x) + 1) % len(ASKS)] for x in ps)
    plan = [(equity, ps, ws) for ws in itertools.product(WEIGHTS, repeat=len(ps))]
    plan += [(equity, ps2, ws) for ws in itertools.product(WEIGHTS, repeat=len(ps))]
    # weight vectors whose sum is within 1e-5 of one but not one
    near = {1: [('1.000004',), ('0.999996',)], 2: [('0.600004', '0.400003'), ('0.599996', '0.399997')],
            3: [('0.400003', '0.350003', '0.250003')]}
    plan += [(equity, ps, ws) for ws in near[len(ps)]]
    if len(ps) > 1:
        plan += [(equity, ps[:-1], ws) for ws in itertools.product(WEIGHTS[3:], repeat=len(ps) - 1)]
    half = fw(equity) / 2
    plan += [('half', ps, ws) for ws in itertools.product(WEIGHTS[2:5], repeat=len(ps))]
    if len(ps) > 1:
        # phase 4b: every weight vector once more, the dictionary keyed in reverse symbol order
        plan += [('half-rev', ps, ws) for ws in itertools.product(WEIGHTS, repeat=len(ps))]
    withdrawn = False
    live = {}
    for eq, prices, ws in plan:
        rev = eq == 'half-rev'
        if eq in ('half', 'half-rev'):
            if not withdrawn:
                broker.withdraw_funds_from_portfolio('p', float(half))
                withdrawn = True
            eq = half
        f, a, oc = check_call(sizer, dh, eq, buf, rate, ws, prices, shared=live if prices is ps2 else None, reverse=rev)
        n += 1
        amb += a
        viols += f
        if oc is not None:
            outs.add(oc)
            if any(oc):
                nz += 1
        if len(viols) > 10:
            break
    # phase 5: the buffer of the live sizer is changed (sizer.cash_buffer_percentage = x, as a risk overlay or a
    # parameter sweep on a prepared trading system does): sizing must follow the buffer the sizer now shows
    if not viols:
        for b2 in BUFFERS:
            if b2 == buf:
                continue
            sizer.cash_buffer_percentage = float(fw(b2))
            for ws in itertools.product(WEIGHTS[2:5], repeat=len(ps)):
                f, a, oc = check_call(sizer, dh, half if withdrawn else fw(equity), b2, rate, ws, ps)
                n += 1
                amb += a
                viols += [dict(x, case=dict(x['case'], buffer_at_construction=buf)) for x in f]
            if viols:
                break
    # phase 6: the portfolio is INVESTED - the target just computed is traded through the broker (real fills, real
    # commissions) and the same weights are sized again at unchanged prices, as the second rebalance of a quiet week does
    if not viols and float(fw(equity)) >= 100:
        from qstrader.execution.order import Order
        dt_open = pd.Timestamp('2020-03-03 14:30:00', tz='UTC')
        dh.fair = True
        cur_buf = '0.05' if buf != '0.05' else '0'
        sizer.cash_buffer_percentage = float(fw(cur_buf))
        assets = ASSETS[:len(ps)]
        for ws in list(itertools.product(WEIGHTS[2:5], repeat=len(ps)))[:9]:
            if viols:
                break
            for rnd in range(3):
                eq_now = Fraction(repr(float(broker.get_portfolio_total_equity('p'))))
                f, a, oc = check_call(sizer, dh, eq_now, cur_buf, rate, ws, ps)
                n += 1
                amb += a
                viols += [dict(x, case=dict(x['case'], invested_round=rnd)) for x in f]
                if viols or oc is None:
                    break
                held = {k: int(v['quantity']) for k, v in broker.get_portfolio_as_dict('p').items()}
                for asset, q in zip(assets, oc):
                    d = int(q) - held.get(asset, 0)
                    if d:
                        broker.submit_order('p', Order(dt_open, asset, d))
                broker.update(dt_open)
        dh.fair = False
    return {'viols': viols[:10], 'execs': n, 'evals': n, 'ambiguous': amb, 'nontrivial': nz > 0,
            'outcome': (item, tuple(sorted(outs))), 'counters': {'calls_with_nonzero_target': nz},
            'sample': {'equity': equity, 'buffer': buf, 'fee_rate': rate, 'asks': list(ps),
                       'distinct_targets': len(outs)}}


def wide_group(item):
    """Wide weight vectors (8 / 12 / 40 assets): rotations of the weight and price alphabets on one sizer."""
    from qstrader.portcon.order_sizer.dollar_weighted import DollarWeightedCashBufferedOrderSizer
    nassets, equity, buf, rate = item
    dh = PriceStub()
    broker = make_broker(equity, rate, dh)
    sizer = DollarWeightedCashBufferedOrderSizer(broker, 'p', dh, cash_buffer_percentage=float(fw(buf)))
    viols, amb, n, nz = [], 0, 0, 0
    for k in range(len(WEIGHTS)):
        for j in (0, 1, 3):
            ws = tuple(WEIGHTS[(i * (j + 1) + k) % len(WEIGHTS)] for i in range(nassets))
            ps = tuple(ASKS[(i + j + k) % len(ASKS)] for i in range(nassets))
            f, a, oc = check_call(sizer, dh, equity, buf, rate, ws, ps)
            n += 1
            amb += a
            viols += f
            nz += 1 if oc and any(oc) else 0
        if viols:
            break
    return {'viols': viols[:6], 'execs': n, 'evals': n, 'ambiguous': amb, 'nontrivial': nz > 0, 'outcome': ('wide',) + tuple(item),
            'counters': {'wide_vector_calls': n}}


def wide_items(tier):
    ns = (8, 12) if tier == 'quick' else (8, 9, 12, 33, 40)
    return [(n, e, b, r) for n in ns for e in EQUITIES[2:] for b in BUFFERS[:3] for r in RATES[:2]]


def refusal(item):
    from qstrader.portcon.order_sizer.dollar_weighted import DollarWeightedCashBufferedOrderSizer
    kind = item[0]
    case = {'kind': 'refusal', 'item': list(item)}
    dh = PriceStub()
    broker = make_broker('10000', '0.001', dh)
    viols = []

    def expect_value_error(thunk, what):
        try:
            r = thunk()
            viols.append({'clause': 'C10.refusal_missing', 'signature': what, 'detail': {'what': what, 'returned': repr(r)},
                          'case': case})
        except ValueError:
            pass
        except Exception as e:  # noqa
            viols.append({'clause': 'C10.refusal_type', 'signature': what, 'detail': {'what': what, 'error': repr(e)},
                          'case': case})
    if kind == 'buffer':
        expect_value_error(lambda: DollarWeightedCashBufferedOrderSizer(broker, 'p', dh,
                                                                        cash_buffer_percentage=float(item[1])),
                           'buffer outside [0,1]')
    else:
        n, pos = item[1], item[2]
        sizer = DollarWeightedCashBufferedOrderSizer(broker, 'p', dh, cash_buffer_percentage=0.05)
        assets = ASSETS[:n]
        dh.ask = {a: 9.99 for a in assets}
        weights = {a: 0.5 for a in assets}
        if kind == 'negative':
            weights[assets[pos]] = float(item[3])
            expect_value_error(lambda: sizer(DT, weights), 'negative weight')
        elif kind == 'nan':
            dh.ask[assets[pos]] = np.nan
            weights[assets[pos]] = float(item[3])
            expect_value_error(lambda: sizer(DT, weights), 'NaN price')
        elif kind == 'missing':
            del dh.ask[assets[pos]]
            expect_value_error(lambda: sizer(DT, weights), 'NaN price')
    return {'viols': viols, 'execs': 1, 'evals': 1, 'nontrivial': True, 'outcome': ('refusal',) + tuple(item)}


def items(tier):
    out = []
    sizes = (1, 2) if tier == 'quick' else (1, 2, 3)
    for equity in (EQUITIES if tier == 'quick' else EQUITIES + ['2500000000.5']):
        for buf in BUFFERS:
            for rate in RATES:
                for n in sizes:
                    for ps in itertools.product(ASKS, repeat=n):
                        out.append((equity, buf, rate, ps))
    return out


def refusal_items():
    out = [('buffer', '-0.01'), ('buffer', '1.01'), ('buffer', '-1'), ('buffer', '1.5')]
    for n in (1, 2, 3):
        for pos in range(n):
            out.append(('negative', n, pos, '-0.25'))
            out.append(('negative', n, pos, '-1e-9'))
            out.append(('nan', n, pos, '0.5'))
            out.append(('nan', n, pos, '0'))
            out.append(('missing', n, pos, '0.5'))
    return out


def run(tier, res, is_known):
    its = items(tier)
    res.rule = ('full product equity x buffer x fee rate x weight vector (1-%d assets, 6 values each, all-zero and '
                'unnormalised included) x price vector (5 values each): one real sizer call per point against a real '
                'funded broker; plus the refusal grid; non-trivial = group with a non-zero target; distinct = distinct '
                '(configuration, target set)' % (2 if tier == 'quick' else 3))
    res.bounds = {'weights': WEIGHTS, 'asks': ASKS, 'equities': EQUITIES, 'buffers': BUFFERS, 'rates': RATES,
                  'groups': len(its)}
    res.assumptions += ['exact Fraction arithmetic for the budget; a result within 1e-9 (relative) of a floor boundary '
                        'accepts both neighbours and is counted in boundary_ambiguous',
                        'estimated fee = rate x allocation (percentage model, quantity-independent)']
    product(group, its, res, is_known, label='sizing grid', sample_every=397)
    product(wide_group, wide_items(tier), res, is_known, label='wide weight vectors (8-40 assets)', chunk=4)
    product(refusal, refusal_items(), res, is_known, label='refusal grid')
    product(wiring_refusal, [(via, bad) for via in ('qts', 'session') for bad in [-0.01, 1.01, -1, 2]], res, is_known,
            label='refusals through the system wiring')


def replay(case):
    from qstrader.portcon.order_sizer.dollar_weighted import DollarWeightedCashBufferedOrderSizer
    if case['kind'] == 'wiring':
        return wiring_refusal(tuple(case['item']))['viols']
    if case['kind'] == 'refusal':
        return refusal(tuple(case['item']))['viols']
    dh = PriceStub()
    broker = make_broker(case['equity'], case['rate'], dh)
    if 'buffer_at_construction' in case:
        sizer = DollarWeightedCashBufferedOrderSizer(broker, 'p', dh, cash_buffer_percentage=float(fw(case['buffer_at_construction'])))
        sizer.cash_buffer_percentage = float(fw(case['buffer']))
    else:
        sizer = DollarWeightedCashBufferedOrderSizer(broker, 'p', dh, cash_buffer_percentage=float(fw(case['buffer'])))
    f, _, _ = check_call(sizer, dh, case['equity'], case['buffer'], case['rate'], case['weights'], case['asks'],
                         reverse=bool(case.get('reverse')))
    return f


def wiring_refusal(item):
    """the same invalid sizing parameter given through QuantTradingSystem / BacktestTradingSession must be refused too"""
    import pandas as pd
    from qstrader.system.qts import QuantTradingSystem
    from qstrader.trading.backtest import BacktestTradingSession
    from qstrader.asset.universe.static import StaticUniverse
    from qstrader.alpha_model.fixed_signals import FixedSignalsAlphaModel
    via, bad = item
    dh = PriceStub()
    dh.ask = {'EQ:AAA': 9.99}
    uni = StaticUniverse(['EQ:AAA'])
    alpha = FixedSignalsAlphaModel({'EQ:AAA': 1.0})
    viols = []
    case = {'kind': 'wiring', 'item': list(item)}
    kw = dict(long_only=True, cash_buffer_percentage=bad)
    try:
        if via == 'qts':
            broker = make_broker('10007', '0.001', dh)
            QuantTradingSystem(uni, broker, 'p', dh, alpha, **kw)
        else:
            t0 = pd.Timestamp('2020-03-02 14:30:00', tz='UTC')
            BacktestTradingSession(t0, t0 + pd.Timedelta(days=3), uni, alpha, rebalance='daily', data_handler=dh, **kw)
        viols.append({'clause': 'C10.refusal_missing', 'signature': 'wiring:%s' % via, 'case': case,
                      'detail': {'via': via, 'value': bad, 'what': 'invalid sizing parameter accepted'}})
    except ValueError:
        pass
    except Exception as e:  # noqa
        viols.append({'clause': 'C10.refusal_type', 'signature': 'wiring:%s' % via, 'case': case,
                      'detail': {'via': via, 'value': bad, 'error': repr(e)}})
    return {'viols': viols, 'execs': 1, 'evals': 1, 'nontrivial': True, 'outcome': ('wiring', via, bad)}
