"""C02 - Holdings equal the net of all fills and are valued at the latest price."""
from .. import brokermachine as bm
from ..core import bfs

FEE = ('pct', '0.001', '0')
INIT = (('acct_sub', '30000'), ('create', '1'), ('create', '2'),
        ('pf_sub', '1', '10000'), ('pf_sub', '2', '10000'))
INITIALS = [
    INIT,
    INIT + (('submit', '1', 'A', 5), ('submit', '2', 'B', -3), ('tick', 2)),   # long 5 A / short 3 B
]


def make_alphabet(tier):
    qtys = (2, -2, 3, -3, 5, -5)

    def alphabet(m):
        evs = []
        for a in ('A', 'B'):
            for q in qtys:
                evs.append(('submit', '1', a, q))
        evs += [('submit', '2', 'B', 3), ('submit', '2', 'B', -3)]
        ticks = {m.clock}
        if m.clock + 1 < len(bm.INSTANTS):
            ticks.add(m.clock + 1)
        j = bm.next_open(m.clock)
        if j is not None:
            ticks.add(j)
        evs += [('tick', j) for j in sorted(ticks)]
        evs += [('quotes', 0), ('quotes', 1), ('quotes', 2)]
        for a in ('A', 'B'):
            for px in ('9.5', '12.25'):
                evs.append(('mark', '1', a, px))
        evs.append(('mark', '2', 'B', '12.25'))
        return evs
    return alphabet


def run(tier, res, is_known):
    depth = 4 if tier == 'quick' else 5
    res.rule = ('BFS over histories of order submissions, clock updates (marks + fills), quote switches and '
                'portfolio-level price marks on two portfolios; non-trivial = at least one fill on the path; '
                'distinct = canonical key (cash, position internals, pending queues, clock, quote table)')
    res.bounds = {'depth': depth, 'fee': list(FEE), 'initial_states': len(INITIALS)}
    res.assumptions += [
        'a broker clock update marks every held asset at the data handler mid price before filling',
        'quantities compared numerically (short side is float in the implementation)',
    ]
    for i, init in enumerate(INITIALS):
        spec = bm.BrokerSpec('C02', FEE, [init], make_alphabet(tier))
        bfs(spec, depth, res, is_known, label='init=%d' % i)
        if any(not is_known(v) for v in res.violations):
            return


def replay(case):
    return bm.replay_broker(case, 'C02.')


def minimise(case, clause):
    return bm.minimise_broker(case, clause, 'C02.')
