"""C02 - Holdings equal the net of all fills and are valued at the latest price."""
from .. import brokermachine as bm
from ..core import bfs

FEE = ('pct', '0.001', '0')
INIT = (('acct_sub', '30000'), ('create', '1'), ('create', '2'),
        ('pf_sub', '1', '10000'), ('pf_sub', '2', '10000'))
# the same books with the portfolios created in the other order (ids do not sort the way they were created)
INIT_REV = (('acct_sub', '30000'), ('create', '2'), ('create', '1'), ('pf_sub', '1', '10000'), ('pf_sub', '2', '10000'),
            ('submit', '1', 'A', 5), ('submit', '2', 'Bq', -3), ('tick', 2))
INITIALS = [
    INIT,
    INIT + (('submit', '1', 'A', 5), ('submit', '2', 'Bq', -3), ('tick', 2)),   # long 5 A / short 3 B
    INIT_REV,
]


QTYS = (2, -2, 3, -3, 5, -5)


def alphabet(m):
    evs = []
    for a in ('A', 'Bq'):
        for q in QTYS:
            evs.append(('submit', '1', a, q))
    evs += [('submit', '2', 'Bq', 3), ('submit', '2', 'Bq', -3)]
    ticks = {m.clock}
    if m.clock + 1 < len(bm.INSTANTS):
        ticks.add(m.clock + 1)
    j = bm.next_open(m.clock)
    if j is not None:
        ticks.add(j)
    evs += [('tick', j) for j in sorted(ticks)]
    evs += [('quotes', 0), ('quotes', 1), ('quotes', 2)]
    for a in ('A', 'Bq'):
        for px in ('9.5', '12.25'):
            evs.append(('mark', '1', a, px))
    evs.append(('mark', '2', 'Bq', '12.25'))
    return evs


def make_alphabet(tier):
    return alphabet


def run(tier, res, is_known):
    depth = 4 if tier == 'quick' else 5
    res.rule = ('BFS over histories of order submissions, clock updates (marks + fills), quote switches and '
                'portfolio-level price marks on two portfolios; non-trivial = at least one fill on the path; '
                'distinct = canonical key (cash, position internals, pending queues, clock, quote table)')
    res.bounds = {'depth': depth, 'fee': list(FEE), 'initial_states': len(INITIALS)}
    res.assumptions += [
        'a broker clock update marks every held asset at the data handler mid price before filling',
        'quantities compared numerically (short side is float in the implementation)',
    ]
    for i, init in enumerate(INITIALS):
        spec = bm.BrokerSpec('C02', FEE, [init], make_alphabet(tier))
        bfs(spec, depth if i < 2 else depth - 1, res, is_known, label='init=%d' % i)
        if any(not is_known(v) for v in res.violations):
            return


def replay(case):
    return bm.replay_broker(case, 'C02.')


def minimise(case, clause):
    return bm.minimise_broker(case, clause, 'C02.')


# ------------------------------------------------------------------------------------------
# part 2: the portfolio-level seam (Portfolio.transact_asset / update_market_value_of_asset with
# explorer-chosen fills, prices, commissions) as a complete tree - close to exactly zero, re-open
# and flip in one fill are reachable within two events
# ------------------------------------------------------------------------------------------
def _pf_check(port, refs, cash, hist):
    from ..brokermachine import close
    fails = []
    d = port.portfolio_to_dict()
    held = {a: r for a, r in refs.items() if r.net() != 0}
    if set(d) != set(held):
        fails.append({'clause': 'C02.holdings_set', 'detail': {'impl': sorted(d), 'ref': sorted(held), 'history': hist}})
        return fails
    mv = 0
    for a, r in held.items():
        if not close(d[a]['quantity'], r.net()):
            fails.append({'clause': 'C02.quantity', 'detail': {'asset': a, 'impl': d[a]['quantity'], 'ref': r.net(),
                                                               'history': hist}})
        want = r.net() * r.price
        mv += want
        if not close(d[a]['market_value'], want):
            fails.append({'clause': 'C02.market_value', 'detail': {'asset': a, 'impl': d[a]['market_value'],
                                                                   'ref': float(want), 'history': hist}})
    if not close(port.total_market_value, mv):
        fails.append({'clause': 'C02.total_market_value', 'detail': {'impl': port.total_market_value, 'ref': float(mv),
                                                                     'history': hist}})
    if not close(port.total_equity, mv + cash):
        fails.append({'clause': 'C02.total_equity', 'detail': {'impl': port.total_equity, 'ref': float(mv + cash),
                                                               'history': hist}})
    return fails

def _cash_after(cash, ev):
    from ..brokermachine import F
    if ev[0] == 'fill':
        return cash - (F(ev[3]) * ev[2] + F(ev[4]))
    return cash


def _pf_tree(args):
    from . import c03
    from ..brokermachine import F, close
    tier, prefix, depth = args
    evs = c03.pf_alphabet(tier)
    viols, n, shapes = [], 0, set()

    check, cash_after = _pf_check, _cash_after
    port, refs, cash = c03.new_portfolio(), {}, F('100000')
    for i, ev in enumerate(prefix):
        port, refs, _ = c03.apply_portfolio(port, refs, ev, i)
        cash = cash_after(cash, ev)
    stack = [(port, refs, cash, tuple(prefix))]
    while stack:
        port, refs, cash, hist = stack.pop()
        n += 1
        hl = [list(e) for e in hist]
        fails = check(port, refs, cash, hl)
        for f in fails:
            f['case'] = {'harness': 'portfolio_tree', 'history': hl}
            viols.append(f)
        if fails:
            if len(viols) > 10:
                break
            continue
        shapes.add(tuple(sorted((a, (r.net() > 0) - (r.net() < 0)) for a, r in refs.items())))
        if len(hist) - len(prefix) >= depth:
            continue
        for ev in evs:
            p2, r2, _ = c03.apply_portfolio(port, refs, ev, len(hist))
            stack.append((p2, r2, cash_after(cash, ev), hist + (ev,)))
    return {'viols': viols[:10], 'execs': n, 'evals': n, 'nontrivial': True, 'outcome': None,
            'sets': {'portfolio_tree_shapes': shapes}, 'counters': {'portfolio_tree_states': n}}


def _pf_items(tier):
    import itertools
    from . import c03
    depth = 3 if tier == 'quick' else 4
    evs = c03.pf_alphabet(tier)
    items = [(tier, (), 0)]
    for pre in evs:
        items.append((tier, (pre,), depth - 1))
    for pre in c03.pf_alphabet('large'):
        items.append(('large', (pre,), 2))       # lots of a million with residuals of a few units
    return items



# ------------------------------------------------------------------------------------------
# part 3: wide books - 7 to 10 open positions out of 12 assets; every (close one, open another) swap in either
# order, read after every event or only at the end (an aggregate kept up to date lazily must not go stale)
# ------------------------------------------------------------------------------------------
WIDE = ['S%02d' % i for i in range(12)]


def _wide_items(tier):
    ks = (8, 9) if tier == 'quick' else (6, 7, 8, 9, 10, 11)
    return [(k, mode) for k in ks for mode in ('read_every_state', 'read_at_the_end')]


def _wide_book(args):
    from . import c03
    from ..brokermachine import F
    k, mode = args
    viols, n, shapes = [], 0, set()
    port, refs, cash, hist = c03.new_portfolio(), {}, F('100000'), []

    def step(state, ev, read):
        port, refs, cash, hist = state
        port, refs, _ = c03.apply_portfolio(port, refs, ev, len(hist))
        cash = _cash_after(cash, ev)
        hist = hist + [list(ev)]
        fails = _pf_check(port, refs, cash, hist) if read else []
        return (port, refs, cash, hist), fails
    state = (port, refs, cash, hist)
    for i in range(k):
        ev = ('fill', WIDE[i], (2 + i % 3) * (1 if i % 4 else -1), str(10 + i), '0.5')
        state, fails = step(state, ev, mode == 'read_every_state')
    base, fails = state, _pf_check(state[0], state[1], state[2], state[3])       # the book is valued at this size
    n += 1
    held = list(base[1].keys())
    free = [a for a in WIDE if a not in base[1]]
    plans = []
    for a in held:
        q = -int(base[1][a].net())
        for b in free:
            close_ev, open_ev = ('fill', a, q, '11.5', '0.5'), ('fill', b, 4, '21.25', '0.5')
            plans.append([close_ev, open_ev])
            plans.append([open_ev, close_ev])
            plans.append([close_ev, open_ev, ('mark', b, '22')])
    for a in held[:2]:
        plans.append([('fill', a, -int(base[1][a].net()), '11.5', '0.5')])
    for b in free[:2]:
        plans.append([('fill', b, 4, '21.25', '0.5')])
    for plan in plans:
        if fails:
            break
        st = base
        for idx, ev in enumerate(plan):
            last = idx == len(plan) - 1
            st, fails = step(st, ev, last or mode == 'read_every_state')
            n += 1
            if fails:
                break
        shapes.add((k, len(st[1])))
    for f in fails:
        f['case'] = {'harness': 'wide_book', 'k': k, 'mode': mode}
        viols.append(f)
    return {'viols': viols[:6], 'execs': n, 'evals': n, 'nontrivial': True, 'outcome': ('wide', k, mode),
            'sets': {'wide_book_shapes': shapes}, 'counters': {'wide_book_states': n}}


_run_broker = run


def run(tier, res, is_known):            # noqa: F811  (extends the broker-level search above)
    from ..core import product
    _run_broker(tier, res, is_known)
    if any(not is_known(v) for v in res.violations):
        return
    product(_pf_tree, _pf_items(tier), res, is_known, label='portfolio-level tree', chunk=1)
    if any(not is_known(v) for v in res.violations):
        return
    product(_wide_book, _wide_items(tier), res, is_known, label='wide books (7-11 positions of 12 assets), swaps', chunk=1)
    if any(not is_known(v) for v in res.violations):
        return
    product(periodic, bm.periodic_items([FEE], repeats=(40, 150) if tier == 'quick' else (40, 150, 400)), res, is_known,
            label='long periodic histories', chunk=4)
    res.extra['portfolio_tree_shapes'] = len(res.extra.get('portfolio_tree_shapes', ()))
    res.rule += ('; part 2: complete tree of Portfolio.transact_asset / update_market_value_of_asset histories (23 events, '
                 'depth 3-4) with the same holdings oracle')


_replay_broker = replay


def replay(case):                         # noqa: F811
    if case.get('harness') == 'periodic':
        return bm.replay_periodic(case, 'C02.')
    if case.get('harness') == 'wide_book':
        return _wide_book((case['k'], case['mode']))['viols']
    if case.get('harness') != 'portfolio_tree':
        return _replay_broker(case)
    out = _pf_tree(('quick', tuple(tuple(e) for e in case['history']), 0))
    return out['viols']


_minimise_broker = minimise


def minimise(case, clause):               # noqa: F811
    if case.get('harness') in ('periodic', 'wide_book'):
        return case
    if case.get('harness') != 'portfolio_tree':
        return _minimise_broker(case, clause)
    return case


def periodic(item):
    return bm.periodic_point(item, 'C02.', df_check=False)
