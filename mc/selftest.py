"""setup_cmd: nothing to build; prove the harness is bound to the working tree and works."""
import glob
import importlib
import json
import os
import subprocess

from . import env
from .env import HarnessError, VERIF


def main():
    env.setup()
    import qstrader
    print('qstrader from', os.path.dirname(qstrader.__file__))
    mods = sorted(glob.glob(os.path.join(VERIF, 'mc', 'props', 'c[0-9][0-9].py')))
    for m in mods:
        name = os.path.basename(m)[:-3]
        mod = importlib.import_module('mc.props.' + name)
        for attr in ('run', 'replay'):
            if not hasattr(mod, attr):
                raise HarnessError('%s lacks %s()' % (name, attr))
    print('property modules:', ' '.join(os.path.basename(m)[:-3] for m in mods))
    # stored regression traces of repaired defects must replay deterministically (and pass now)
    for path in sorted(glob.glob(os.path.join(VERIF, 'regressions', '*.json'))):
        rec = json.load(open(path))
        mod = importlib.import_module('mc.props.' + rec['property'].lower())
        a = sorted(f['clause'] for f in mod.replay(rec['case']))
        b = sorted(f['clause'] for f in mod.replay(rec['case']))
        if a != b:
            raise HarnessError('replay of %s not deterministic' % path)
        print('regression %s: %s' % (os.path.basename(path), 'still failing: %s' % a if a else 'passes'))
    # manifest / known findings are well-formed JSON
    json.load(open(os.path.join(VERIF, 'MANIFEST.json')))
    kf = os.path.join(VERIF, 'known_findings.json')
    if os.path.exists(kf):
        json.load(open(kf))
    # evidence schema validation is available through the tooling venv (optional)
    vt = '/opt/veriftools/pyvenv/bin/python'
    schema = '/root/.vp/EVIDENCE.schema.json'
    if os.path.exists(vt) and os.path.exists(schema):
        for ev in sorted(glob.glob(os.path.join(VERIF, 'evidence', '*.json'))):
            r = subprocess.run([vt, '-c', 'import json,sys,jsonschema; jsonschema.validate('
                                'json.load(open(sys.argv[1])), json.load(open(sys.argv[2])))', ev, schema],
                               capture_output=True, text=True)
            if r.returncode != 0:
                raise HarnessError('evidence %s does not validate: %s' % (ev, r.stderr[-400:]))
        print('evidence files validate')
    print('selftest ok')
    return 0
