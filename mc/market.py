"""Synthetic CSV markets written to a scratch directory and loaded by the real CSVDailyBarDataSource."""
import datetime
import math
import os
import shutil

from .env import scratch_dir

HEADER = 'Date,Open,High,Low,Close,Adj Close,Volume\n'


def fmt(x):
    if x is None or (isinstance(x, float) and math.isnan(x)):
        return ''
    return repr(float(x)) if not isinstance(x, str) else x


def write_csv(directory, symbol, rows, with_adj=True):
    """rows: list of (date, open, close, adj_close); None = missing cell. Written in the given order."""
    path = os.path.join(directory, '%s.csv' % symbol)
    with open(path, 'w') as f:
        f.write(HEADER if with_adj else HEADER.replace(',Adj Close', ''))
        for row in rows:
            d, o, c, a = row[:4]
            vol = row[4] if len(row) > 4 else 1000
            hi = max([x for x in (o, c) if x is not None] or [1.0]) + 0.5
            lo = min([x for x in (o, c) if x is not None] or [1.0]) - 0.5
            cells = [d.isoformat(), fmt(o), fmt(hi), fmt(lo), fmt(c)]
            if with_adj:
                cells.append(fmt(a))
            cells.append(str(vol))
            f.write(','.join(cells) + '\n')
    return path


class Scratch(object):
    """Context manager: a scratch directory outside /repo and /verif, removed on exit."""

    def __init__(self, prefix='qsverif-'):
        self.prefix = prefix
        self.path = None

    def __enter__(self):
        self.path = scratch_dir(self.prefix)
        return self.path

    def __exit__(self, *exc):
        shutil.rmtree(self.path, ignore_errors=True)
        return False


def clear_caches():
    from qstrader.data.daily_bar_csv import CSVDailyBarDataSource
    for name in ('get_bid', 'get_ask'):
        fn = getattr(CSVDailyBarDataSource, name, None)
        if fn is not None and hasattr(fn, 'cache_clear'):
            fn.cache_clear()


def load_source(directory, symbols=None, adjust=False):
    from qstrader.asset.equity import Equity
    from qstrader.data.daily_bar_csv import CSVDailyBarDataSource
    return CSVDailyBarDataSource(directory, Equity, adjust_prices=adjust, csv_symbols=symbols)
