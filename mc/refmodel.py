"""Boring reference models shared by several checks (plain python, datetime.date arithmetic,
exact Fractions).  Nothing in here calls pandas offsets or qstrader."""
import datetime
from fractions import Fraction

ONE_DAY = datetime.timedelta(days=1)


def daterange(d0, d1):
    d = d0
    while d <= d1:
        yield d
        d += ONE_DAY


def is_bday(d):
    return d.weekday() <= 4


def bdays(d0, d1):
    return [d for d in daterange(d0, d1) if is_bday(d)]


def next_bday(d):
    d = d + ONE_DAY
    while not is_bday(d):
        d += ONE_DAY
    return d


def last_bday_of_month(year, month):
    if month == 12:
        d = datetime.date(year + 1, 1, 1) - ONE_DAY
    else:
        d = datetime.date(year, month + 1, 1) - ONE_DAY
    while not is_bday(d):
        d -= ONE_DAY
    return d


def month_end_bdays(d0, d1):
    out = []
    y, m = d0.year, d0.month
    while (y, m) <= (d1.year, d1.month):
        d = last_bday_of_month(y, m)
        if d0 <= d <= d1:
            out.append(d)
        m += 1
        if m == 13:
            y, m = y + 1, 1
    return out


def weekday_dates(d0, d1, wd):
    return [d for d in daterange(d0, d1) if d.weekday() == wd]


def utc(d, h=0, m=0, s=0):
    return datetime.datetime(d.year, d.month, d.day, h, m, s, tzinfo=datetime.timezone.utc)


def clock_events(d0, d1, pre=False, post=False):
    """The documented event stream for the business days of [d0, d1]."""
    out = []
    for d in bdays(d0, d1):
        if pre:
            out.append((utc(d, 0, 0), 'pre_market'))
        out.append((utc(d, 14, 30), 'market_open'))
        out.append((utc(d, 21, 0), 'market_close'))
        if post:
            out.append((utc(d, 23, 59), 'post_market'))
    return out


def to_py(ts):
    """pandas Timestamp (tz-aware) -> aware datetime in UTC (second resolution is enough here)."""
    d = ts.to_pydatetime()
    if d.tzinfo is None:
        return None
    return d.astimezone(datetime.timezone.utc)
