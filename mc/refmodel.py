"""Boring reference models shared by several checks (plain python, datetime.date arithmetic,
exact Fractions).  Nothing in here calls pandas offsets or qstrader."""
import datetime
from fractions import Fraction

ONE_DAY = datetime.timedelta(days=1)


def daterange(d0, d1):
    d = d0
    while d <= d1:
        yield d
        d += ONE_DAY


def is_bday(d):
    return d.weekday() <= 4


def bdays(d0, d1):
    return [d for d in daterange(d0, d1) if is_bday(d)]


def next_bday(d):
    d = d + ONE_DAY
    while not is_bday(d):
        d += ONE_DAY
    return d


def last_bday_of_month(year, month):
    if month == 12:
        d = datetime.date(year + 1, 1, 1) - ONE_DAY
    else:
        d = datetime.date(year, month + 1, 1) - ONE_DAY
    while not is_bday(d):
        d -= ONE_DAY
    return d


def month_end_bdays(d0, d1):
    out = []
    y, m = d0.year, d0.month
    while (y, m) <= (d1.year, d1.month):
        d = last_bday_of_month(y, m)
        if d0 <= d <= d1:
            out.append(d)
        m += 1
        if m == 13:
            y, m = y + 1, 1
    return out


def weekday_dates(d0, d1, wd):
    return [d for d in daterange(d0, d1) if d.weekday() == wd]


def utc(d, h=0, m=0, s=0):
    return datetime.datetime(d.year, d.month, d.day, h, m, s, tzinfo=datetime.timezone.utc)


def clock_events(d0, d1, pre=False, post=False):
    """The documented event stream for the business days of [d0, d1]."""
    out = []
    for d in bdays(d0, d1):
        if pre:
            out.append((utc(d, 0, 0), 'pre_market'))
        out.append((utc(d, 14, 30), 'market_open'))
        out.append((utc(d, 21, 0), 'market_close'))
        if post:
            out.append((utc(d, 23, 59), 'post_market'))
    return out


def to_py(ts):
    """pandas Timestamp (tz-aware) -> aware datetime in UTC (second resolution is enough here)."""
    d = ts.to_pydatetime()
    if d.tzinfo is None:
        return None
    return d.astimezone(datetime.timezone.utc)


# ------------------------------------------------------------------------------------------
# the documented trading rules, end to end (C08): plain python + Fractions
# ------------------------------------------------------------------------------------------
import contextlib


@contextlib.contextmanager
def process_tz(name):
    """Run a block with the PROCESS-local time zone set to `name` (TZ + tzset), as on a user's workstation; the
    library documents UTC instants, so nothing it does may depend on this.  Restored afterwards."""
    import os
    import time
    old = os.environ.get('TZ')
    try:
        if name:
            os.environ['TZ'] = name
            time.tzset()
        yield
    finally:
        if old is None:
            os.environ.pop('TZ', None)
        else:
            os.environ['TZ'] = old
        time.tzset()


class Ambiguous(Exception):
    """A floor / rounding boundary was hit exactly: the documented rule does not decide it."""


def _floor(x):
    return x.numerator // x.denominator


def _trunc(x):
    return _floor(x) if x >= 0 else -_floor(-x)


def _near_int(x, eps=Fraction(1, 10**9)):
    return abs(x - round(x)) <= eps


def round_half(x):
    fl = _floor(x)
    fr = x - fl
    if fr == Fraction(1, 2):
        raise Ambiguous('consideration tie')
    return fl if fr < Fraction(1, 2) else fl + 1


def schedule(kind, start, end, weekday=None):
    """start/end: aware datetimes. Returns the list of rebalance instants (aware datetimes)."""
    d0, d1 = start.date(), end.date()
    if kind == 'daily':
        return [utc(d, 21, 0) for d in bdays(d0, d1)]
    if kind == 'weekly':
        wd = ['MON', 'TUE', 'WED', 'THU', 'FRI'].index(weekday.upper())
        return [utc(d, 21, 0) for d in weekday_dates(d0, d1, wd)]
    if kind == 'end_of_month':
        return [utc(d, 21, 0) for d in month_end_bdays(d0, d1)]
    if kind == 'buy_and_hold':
        d = d0 if is_bday(d0) else next_bday(d0)
        return [utc(d, start.hour, start.minute, start.second)]
    raise ValueError(kind)


def is_open(t):
    if t.weekday() > 4:
        return False
    secs = t.hour * 3600 + t.minute * 60 + t.second
    return 14 * 3600 + 30 * 60 <= secs < 21 * 3600


class Backtest(object):
    def __init__(self, cfg, price_fn):
        """cfg: sessionlab configuration (fixed weights, static universe); price_fn(asset, t) -> Fraction"""
        self.cfg = cfg
        self.price = price_fn
        self.cash = Fraction(str(cfg.get('cash', 10000.0)))
        self.held = {}
        self.pending = []        # (asset, qty)
        self.fills = []          # (t, asset, qty, price, commission)
        self.equity = []         # (t, value)
        self.rebalances = []
        fee = cfg.get('fee', ['zero'])
        self.rate = Fraction(0) if fee[0] == 'zero' else Fraction(str(fee[1])) + Fraction(str(fee[2]))

    def commission(self, price, qty):
        if self.rate == 0:
            return Fraction(0)
        return self.rate * abs(round_half(price * qty))

    def fill(self, t, asset, qty):
        p = self.price(asset, t)
        c = self.commission(p, qty)
        self.cash -= p * qty + c
        self.held[asset] = self.held.get(asset, 0) + qty
        if self.held[asset] == 0:
            del self.held[asset]
        self.fills.append((t, asset, qty, p, c))

    def total_equity(self, t):
        return self.cash + sum(q * self.price(a, t) for a, q in self.held.items())

    def size(self, t, weights):
        eq = self.total_equity(t)
        out = {}
        if self.cfg['long_only']:
            b = Fraction(str(self.cfg['buffer']))
            tot = sum(weights.values())
            for a in sorted(weights):
                w = weights[a] / tot if tot != 0 else weights[a]
                alloc = (1 - b) * eq * w
                x = (alloc - self.rate * abs(alloc)) / self.price(a, t)
                if _near_int(x):
                    raise Ambiguous('floor boundary')
                out[a] = _floor(x)
        else:
            lev = Fraction(str(self.cfg['leverage']))
            gross = sum(abs(w) for w in weights.values())
            for a in sorted(weights):
                w = weights[a] * lev / gross if gross != 0 else weights[a]
                alloc = eq * w
                after = alloc - self.rate * abs(alloc)
                if _near_int(after):
                    raise Ambiguous('dollar truncation boundary')
                x = Fraction(_trunc(after)) / self.price(a, t)
                if _near_int(x) and x != 0:
                    raise Ambiguous('share truncation boundary')
                # "allocation truncated toward zero": the library truncates the dollars first, then the shares.  Where
                # the discarded fraction of a currency unit would pay for one more share, truncating only the shares
                # gives another whole number and the documented rule does not choose between them
                y = after / self.price(a, t)
                if _trunc(y) != _trunc(x):
                    raise Ambiguous('sub-unit remainder pays for another share')
                out[a] = _trunc(x)
        return out

    def run(self):
        cfg = self.cfg
        start, end = _parse(cfg['start']), _parse(cfg['end'])
        burn = _parse(cfg['burn_in']) if cfg.get('burn_in') else None
        sched = set(schedule(cfg['rebalance'], start, end, cfg.get('weekday')))
        weights = {a: Fraction(str(w)) for a, w in cfg['alpha']['weights'].items()}
        universe = list(cfg['assets'])
        for d in bdays(start.date(), end.date()):
            for t, typ in ((utc(d, 14, 30), 'open'), (utc(d, 21, 0), 'close')):
                # broker update: fill everything pending if the exchange is open, sells first
                if is_open(t) and self.pending:
                    batch = sorted(self.pending, key=lambda o: (1 if o[1] > 0 else -1))
                    self.pending = []
                    for a, q in batch:
                        self.fill(t, a, q)
                if t in sched and (burn is None or t >= burn):
                    self.rebalances.append(t)
                    full = sorted(set(self.held) | set(universe) | set(weights))
                    wv = {a: weights.get(a, Fraction(0)) for a in full}
                    target = self.size(t, wv)
                    for a in full:
                        q = target.get(a, 0) - self.held.get(a, 0)
                        if q != 0:
                            # the execution handler submits one order and updates the broker at once
                            if is_open(t):
                                self.fill(t, a, q)
                            else:
                                self.pending.append((a, q))
                if typ == 'close' and (burn is None or t >= burn):
                    self.equity.append((t, self.total_equity(t)))
        return self


def _parse(s):
    s = str(s)
    d = datetime.datetime.fromisoformat(s.replace('Z', '+00:00'))
    if d.tzinfo is None:
        d = d.replace(tzinfo=datetime.timezone.utc)
    return d.astimezone(datetime.timezone.utc)
