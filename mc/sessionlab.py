"""SessionLab: complete real BacktestTradingSession runs on synthetic CSV markets.

A market is {symbol: [(date, open, close), ...]} written to a scratch directory and loaded by
the real CSVDailyBarDataSource; a configuration is a JSON-able dict.  Recorders are attached
from outside (instance attributes / proxies), never in the repository:
  * Portfolio.transact_asset is wrapped to capture the exact Transaction objects,
  * broker.update is wrapped to know the timestamp being processed when an exception escapes,
  * the statistics dict of the run is kept reachable after a failed run.
"""
import copy
import datetime
import math
import warnings
from fractions import Fraction

import pandas as pd

from . import market as mk
from . import refmodel as rm

SYMS = ['AAA', 'BBB', 'CCC', 'DDD']


def asset_name(sym):
    return 'EQ:%s' % sym


# ------------------------------------------------------------------------------------------
# synthetic markets (values with cents; Fractions keep the reference exact)
# ------------------------------------------------------------------------------------------
def path(shape, base, n):
    """list of (open, close) Fractions for n days"""
    b = Fraction(base)
    out = []
    for d in range(n):
        if shape == 'rising':
            o = b + Fraction('0.37') * d
            c = o + Fraction('0.21')
        elif shape == 'falling':
            o = b - Fraction('0.41') * (d % 15)          # saw-tooth: stays positive on long horizons
            c = o - Fraction('0.13')
        elif shape == 'zigzag':
            s = 1 if d % 2 == 0 else -1
            o = b + s * Fraction('0.9')
            c = b - s * Fraction('0.55') + Fraction('0.07') * d
        elif shape == 'gapdown':
            o = b + Fraction('0.29') * d
            c = o + Fraction('0.11')
            if d >= 6:
                o = o * Fraction('0.75')
                c = c * Fraction('0.75')
                o = Fraction(round(o * 100), 100)
                c = Fraction(round(c * 100), 100)
        elif shape == 'flat':
            o = b
            c = b
        else:
            raise ValueError(shape)
        out.append((o, c))
    return out


def make_market(days, spec):
    """spec: {sym: (shape, base)} or {sym: (shape, base, first_day_index)} -> {sym: [(date, open, close)]}"""
    m = {}
    for sym, s in spec.items():
        shape, base = s[0], s[1]
        first = s[2] if len(s) > 2 else 0
        p = path(shape, base, len(days))
        m[sym] = [(d, p[i][0], p[i][1]) for i, d in enumerate(days) if i >= first]
    return m


def write_market(directory, market):
    """symbols ending in '@2' belong to a SECOND data source (directory/src2), listed after the first one"""
    import os
    for sym, rows in market.items():
        target = directory
        name = sym
        if sym.endswith('@2'):
            target = os.path.join(directory, 'src2')
            os.makedirs(target, exist_ok=True)
            name = sym[:-2]
        # a fifth element is the row's adjustment ratio: Adj Close = Close x ratio (default: Adj Close = Close)
        mk.write_csv(target, name, [(r[0], None if r[1] is None else float(r[1]), None if r[2] is None else float(r[2]),
                                     None if r[2] is None else float(r[2]) * (float(r[4]) if len(r) > 4 else 1.0))
                                    + tuple(r[3:4]) for r in rows])


def load_handler(directory, market, universe=None):
    import os
    from qstrader.data.backtest_data_handler import BacktestDataHandler
    first = sorted(k for k in market if not k.endswith('@2'))
    second = sorted(k[:-2] for k in market if k.endswith('@2'))
    with warnings.catch_warnings():
        warnings.simplefilter('ignore')
        src = mk.load_source(directory, first, adjust=True)
        sources = [src]
        if second:
            sources.append(mk.load_source(os.path.join(directory, 'src2'), second, adjust=True))
    return BacktestDataHandler(universe, data_sources=sources), src


def price_at(market, sym, t):
    """reference pad lookup: last observation (open 14:30 / close 21:00) at or before t; None if none.
    A missing cell is replaced by the previous observation.  A symbol that two data sources hold (sym and sym@2):
    the first configured source that has a price wins, the second answers only while the first has none."""
    def one(rows):
        ans = None
        for row in rows:
            d, o, c = row[:3]
            for when, v in ((rm.utc(d, 14, 30), o), (rm.utc(d, 21, 0), c)):
                if when <= t:
                    if v is not None:
                        ans = v
                else:
                    return ans
        return ans
    ans = one(market[sym]) if sym in market else None
    if ans is None and (sym + '@2') in market:
        ans = one(market[sym + '@2'])
    return ans


# ------------------------------------------------------------------------------------------
# harness alpha models reading the real signals through a real SignalsCollection
# ------------------------------------------------------------------------------------------
def make_alpha(cfg, universe, signals):
    from qstrader.alpha_model.alpha_model import AlphaModel
    from qstrader.alpha_model.fixed_signals import FixedSignalsAlphaModel
    from qstrader.alpha_model.single_signal import SingleSignalAlphaModel
    a = cfg['alpha']
    kind = a['kind']
    if cfg.get('probe_signals'):
        # a recording alpha model: at every call (i.e. at every rebalance) it reads, through the public
        # __call__ of every signal, the value for every current universe member and lookback, then answers
        # like the wrapped model.  This is how C16 observes what the signals were fed, day by day.
        inner = make_alpha(dict(cfg, probe_signals=None), universe, signals)

        class Probe(AlphaModel):
            records = []

            def __call__(self, dt):
                for name, sig in signals.signals.items():
                    for x in universe.get_assets(dt):
                        for n in cfg['probe_signals']:
                            try:
                                v = float(sig(x, n))
                            except Exception as e:  # noqa
                                v = repr(e)
                            self.records.append((dt, name, x, n, v))
                return inner(dt)
        pr = Probe()
        pr.records = []
        return pr
    if kind == 'fixed':
        return FixedSignalsAlphaModel(dict(a['weights']))
    if kind == 'single':
        return SingleSignalAlphaModel(universe, signal=a.get('signal', 1.0))

    class MomTop1(AlphaModel):
        def __call__(self, dt):
            assets = universe.get_assets(dt)
            w = {x: 0.0 for x in assets}
            if signals.warmup >= a['lookback'] and assets:
                moms = sorted(((signals['mom'](x, a['lookback']), x) for x in assets), reverse=True)
                w[moms[0][1]] = 1.0
            return w

    class SmaTrend(AlphaModel):
        def __call__(self, dt):
            assets = universe.get_assets(dt)
            w = {}
            for x in assets:
                if signals.warmup >= a['slow']:
                    w[x] = 1.0 if signals['sma'](x, a['fast']) > signals['sma'](x, a['slow']) else 0.0
                else:
                    w[x] = 0.0
            return w

    class InvVol(AlphaModel):
        def __call__(self, dt):
            assets = universe.get_assets(dt)
            w = {}
            for x in assets:
                v = signals['vol'](x, a['lookback']) if signals.warmup > a['lookback'] else 0.0
                w[x] = (1.0 / v) if v > 0 else 0.0
            return w
    return {'mom_top1': MomTop1, 'sma_trend': SmaTrend, 'inv_vol': InvVol}[kind]()


def make_signals(cfg, universe, handler, start):
    from qstrader.signals.momentum import MomentumSignal
    from qstrader.signals.sma import SMASignal
    from qstrader.signals.vol import VolatilitySignal
    from qstrader.signals.signals_collection import SignalsCollection
    a = cfg['alpha']
    kind = a['kind']
    want = cfg.get('signals')
    if kind in ('fixed', 'single') and not want:
        return None
    sig = {}
    if kind == 'mom_top1':
        sig['mom'] = MomentumSignal(start, universe, lookbacks=[a['lookback']])
    elif kind == 'sma_trend':
        sig['sma'] = SMASignal(start, universe, lookbacks=[a['fast'], a['slow']])
    elif kind == 'inv_vol':
        sig['vol'] = VolatilitySignal(start, universe, lookbacks=[a['lookback']])
    if want:
        lbs = list(want['lookbacks'])
        sig.setdefault('mom', MomentumSignal(start, universe, lookbacks=lbs))
        sig.setdefault('sma', SMASignal(start, universe, lookbacks=lbs))
        sig.setdefault('vol', VolatilitySignal(start, universe, lookbacks=lbs))
    return SignalsCollection(sig, handler)


def make_universe(cfg):
    from qstrader.asset.universe.static import StaticUniverse
    from qstrader.asset.universe.dynamic import DynamicUniverse
    u = cfg['universe']
    if u['kind'] == 'static':
        return StaticUniverse(list(cfg['assets']))
    return DynamicUniverse({a: (None if e is None else pd.Timestamp(e)) for a, e in u['entries'].items()})


def make_fee(spec):
    from qstrader.broker.fee_model.zero_fee_model import ZeroFeeModel
    from qstrader.broker.fee_model.percent_fee_model import PercentFeeModel
    if spec[0] == 'zero':
        return ZeroFeeModel()
    return PercentFeeModel(commission_pct=float(spec[1]), tax_pct=float(spec[2]))


class Obs(object):
    """Everything observable of one run."""

    def __init__(self):
        self.fills = []        # (dt, asset, qty, price, commission, order_id)
        self.equity = []       # (dt, value)
        self.allocs = []       # list of dict (Date + weights) in recorded order
        self.history = []      # (dt, type, description, debit, credit, balance)
        self.cash = None
        self.holdings = {}
        self.error = None      # (type name, message, timestamp being processed)
        self.session = None
        self.signals = None
        self.alloc_table = None
        self.probe = None      # (dt, signal name, asset, lookback, value) read at every rebalance (cfg['probe_signals'])

    def digest_parts(self, with_order_ids=False):
        fills = [(str(f[0]), f[1], float(f[2]), repr(float(f[3])), repr(float(f[4]))) + ((f[5],) if with_order_ids else ())
                 for f in self.fills]
        eq = [(str(d), repr(float(v))) for d, v in self.equity]
        al = [tuple((k, str(v) if k == 'Date' else repr(float(v))) for k, v in a.items()) for a in self.allocs]
        return (tuple(fills), tuple(eq), tuple(al), self.error)


def build_session(cfg, handler, universe=None):
    from qstrader.trading.backtest import BacktestTradingSession
    universe = universe or make_universe(cfg)
    start, end = pd.Timestamp(cfg['start']), pd.Timestamp(cfg['end'])
    signals = make_signals(cfg, universe, handler, start)
    alpha = make_alpha(cfg, universe, signals)
    kw = {}
    if cfg['rebalance'] == 'weekly':
        kw['rebalance_weekday'] = cfg['weekday']
    if cfg['long_only']:
        kw['cash_buffer_percentage'] = cfg['buffer']
    else:
        kw['gross_leverage'] = cfg['leverage']
    burn = cfg.get('burn_in')
    session = BacktestTradingSession(
        start, end, universe, alpha, signals=signals, initial_cash=float(cfg.get('cash', 10000.0)),
        rebalance=cfg['rebalance'], long_only=cfg['long_only'], fee_model=make_fee(cfg.get('fee', ['zero'])),
        burn_in_dt=None if burn is None else pd.Timestamp(burn), data_handler=handler, **kw)
    session._verif_probe = getattr(alpha, 'records', None)      # harness-side only: the recording alpha's list
    return session, signals


def run_session(cfg, handler, universe=None, fresh=True):
    """Runs the real session; never raises for errors of the code under test (recorded in Obs.error).

    fresh=True (default): the session gets its own deep copy of the (never used) handler template, so a
    run cannot depend on what earlier sessions asked the data source.  Only C18 passes fresh=False, to
    explore exactly that dependence."""
    if fresh:
        handler = copy.deepcopy(handler)
    obs = Obs()
    session, signals = build_session(cfg, handler, universe)
    obs.session, obs.signals = session, signals
    obs.probe = session._verif_probe
    pid = session.portfolio_id
    if cfg.get('idle_portfolio'):
        # a second, idle portfolio on the same broker account (created after the strategy's)
        session.broker.create_portfolio('zz-idle', 'idle')
    port = session.broker.portfolios[pid]
    orig = port.transact_asset

    def rec(txn):
        orig(txn)
        obs.fills.append((txn.dt, txn.asset, txn.quantity, txn.price, txn.commission, txn.order_id))
    port.transact_asset = rec
    cur = {'dt': None}
    b_update = session.broker.update

    def upd(dt):
        cur['dt'] = dt
        return b_update(dt)
    session.broker.update = upd
    # keep the statistics reachable after a failed run: proxy the construction model
    pcm = session.qts.portfolio_construction_model
    allocs = []

    class PcmProxy(object):
        def __call__(self, dt, stats=None):
            try:
                return pcm(dt, stats=stats)
            finally:
                if stats is not None:
                    allocs[:] = list(stats['target_allocations'])

        def __getattr__(self, name):
            return getattr(pcm, name)
    session.qts.portfolio_construction_model = PcmProxy()
    import contextlib
    import io
    from qstrader import settings as _settings
    with warnings.catch_warnings(), contextlib.redirect_stdout(io.StringIO()):
        warnings.simplefilter('ignore')
        if cfg.get('print_events'):
            _settings.set_print_events(True)       # the library default: every event is printed (output discarded here)
        try:
            session.run()
            obs.allocs = list(session.target_allocations)
        except Exception as e:  # noqa
            obs.error = (type(e).__name__, str(e), str(cur['dt']))
            obs.allocs = list(allocs)
        finally:
            _settings.set_print_events(False)
    obs.equity = list(session.equity_curve)
    obs.history = [(h.dt, h.type, h.description, h.debit, h.credit, h.balance) for h in port.history]
    obs.cash = session.broker.get_portfolio_cash_balance(pid)
    obs.holdings = {a: row['quantity'] for a, row in session.broker.get_portfolio_as_dict(pid).items()}
    return obs


def bdays_from(start_date, n):
    out, d = [], start_date
    while len(out) < n:
        if rm.is_bday(d):
            out.append(d)
        d += rm.ONE_DAY
    return out
