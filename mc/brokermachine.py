"""BrokerMachine: the real SimulatedBroker / Portfolio / SimulatedExchange / fee models driven
event by event next to a boring exact reference ledger (fractions.Fraction).

Used by C01 C02 C04 C05 C15.  Every discrepancy is tagged with a clause whose prefix names the
property that owns it; a property check reports only its own clauses (a state with *any*
discrepancy is never expanded further, so model and implementation never run on diverged).

Separation of concerns between the properties:
  C04  which orders fill at a tick, in which order, fully, once  (expected from the model queue)
  C05  price side / commission / time stamp of each fill         (expected from quote table + fee spec)
  C01  cash, history and account totals given the fills *as actually recorded*
  C02  holdings and valuation given the fills *as actually recorded* and the marks
  C15  refusals: documented error type, never a silent acceptance, nothing changes
"""
import datetime
from collections import OrderedDict
from fractions import Fraction

import numpy as np
import pandas as pd

from .core import digest
from .env import HarnessError

UTC = datetime.timezone.utc

# instants: non-decreasing; a tick may repeat the current one
INSTANTS = [
    pd.Timestamp('2020-02-28 09:00:00', tz='UTC'),   # 0 Fri, broker start
    pd.Timestamp('2020-02-28 14:29:59', tz='UTC'),   # 1 closed (one second early)
    pd.Timestamp('2020-02-28 14:30:00', tz='UTC'),   # 2 open (boundary, inclusive)
    pd.Timestamp('2020-02-28 17:45:00', tz='UTC'),   # 3 open
    pd.Timestamp('2020-02-28 20:59:59', tz='UTC'),   # 4 open (last second)
    pd.Timestamp('2020-02-28 21:00:00', tz='UTC'),   # 5 closed (boundary, exclusive)
    pd.Timestamp('2020-02-29 15:00:00', tz='UTC'),   # 6 Sat (leap day) closed
    pd.Timestamp('2020-03-01 14:30:00', tz='UTC'),   # 7 Sun closed
    pd.Timestamp('2020-03-02 00:00:00', tz='UTC'),   # 8 Mon midnight closed
    pd.Timestamp('2020-03-02 14:30:00', tz='UTC'),   # 9 Mon open
]


def ref_is_open(ts):
    """Reference exchange hours from plain datetime fields: Mon-Fri, 14:30 <= t < 21:00 UTC."""
    d = ts.to_pydatetime().astimezone(UTC)
    if d.weekday() > 4:
        return False
    secs = d.hour * 3600 + d.minute * 60 + d.second
    return 14 * 3600 + 30 * 60 <= secs < 21 * 3600


OPEN = [ref_is_open(t) for t in INSTANTS]

# assets: 'A' and 'Bq' (a symbol with a lower-case letter - symbols need not be upper case)
# quote tables (bid, ask) as decimal literals; Q2 is crossed so that ask-for-a-buy cannot be
# implemented as min/max; Q3 is sub-dollar
QUOTES = [
    {'A': ('10.37', '10.41'), 'Bq': ('24.90', '25.15')},
    {'A': ('11.02', '11.09'), 'Bq': ('23.55', '23.80')},
    {'A': ('9.96', '9.91'), 'Bq': ('25.40', '25.20')},
    {'A': ('0.37', '0.38'), 'Bq': ('0.52', '0.55')},
    {'A': ('10.50', '10.50'), 'Bq': ('25.50', '25.50')},   # symmetric (bid = ask)
    {'A': ('98765.43', '98770.01'), 'Bq': ('0.0101', '0.0102')},   # very large / very small prices
    # 6: sub-cent prices whose products with 30 / 50 shares fall within a quarter of a cent of a half unit
    # (999.4975, 1000.5025, 999.4983, 1050.501): rounding to whole units must be done once, on the product itself
    {'A': ('19.98995', '20.01005'), 'Bq': ('33.31661', '35.0167')},
]


_FCACHE = {}


def F(x):
    """Exact rational from a decimal literal (str / int / float literal of the alphabet)."""
    if isinstance(x, Fraction):
        return x
    if isinstance(x, str):
        r = _FCACHE.get(x)
        if r is None:
            r = _FCACHE[x] = Fraction(x)
        return r
    if isinstance(x, (int, np.integer)):
        return Fraction(int(x))
    return Fraction(str(x))


def Fx(x):
    """Exact value of a float produced by the implementation."""
    return Fraction(float(x))


def close(impl, ref, tol=1e-9):
    try:
        impl = float(impl)
    except Exception:
        return False
    ref = float(ref)
    if impl != impl:
        return False
    return abs(impl - ref) <= tol * max(1.0, abs(ref))


def cents_ok(reported, exact):
    """Rule 3: within half a cent of the exact value and a whole number of cents."""
    try:
        r = float(reported)
    except Exception:
        return False
    if r != r:
        return False
    # half a cent, plus float resolution at the magnitude of the amount (a balance of tens of millions
    # is only representable to ~1e-8; an exact tie ...555 may round either way)
    if abs(r - float(exact)) > 0.005 + 1e-9 * max(1.0, abs(float(exact))):
        return False
    return abs(r * 100 - round(r * 100)) < max(1e-6, abs(r * 100) * 1e-12)


class StubDataHandler(object):
    """Quote source the explorer switches. bid_ask returns the true (bid, ask) pair."""

    def __init__(self):
        self.table = 0
        self.calls = []

    def _q(self, asset):
        q = QUOTES[self.table].get(asset)
        if q is None:
            return (np.nan, np.nan)
        return (float(q[0]), float(q[1]))

    def get_asset_latest_bid_price(self, dt, asset):
        return self._q(asset)[0]

    def get_asset_latest_ask_price(self, dt, asset):
        return self._q(asset)[1]

    def get_asset_latest_bid_ask_price(self, dt, asset):
        return self._q(asset)

    def get_asset_latest_mid_price(self, dt, asset):
        b, a = self._q(asset)
        return (b + a) / 2.0


def make_fee(spec):
    from qstrader.broker.fee_model.zero_fee_model import ZeroFeeModel
    from qstrader.broker.fee_model.percent_fee_model import PercentFeeModel
    if spec[0] == 'zero':
        return ZeroFeeModel()
    return PercentFeeModel(commission_pct=float(spec[1]), tax_pct=float(spec[2]))


def ref_commission(spec, price, qty):
    """Documented fee: (c + t) x |round(price x qty)|; returns the set of admissible values
    (two at an exact rounding tie)."""
    if spec[0] == 'zero':
        return [Fraction(0)]
    rate = F(spec[1]) + F(spec[2])
    pq = price * qty
    fl = pq.numerator // pq.denominator
    frac = pq - fl
    if frac == Fraction(1, 2):
        cands = [fl, fl + 1]
    elif frac < Fraction(1, 2):
        cands = [fl]
    else:
        cands = [fl + 1]
    return [rate * abs(c) for c in cands]


class MPos(object):
    __slots__ = ('qty', 'last', 'clock')

    def __init__(self):
        self.qty = 0
        self.last = None
        self.clock = 0


class MPortfolio(object):
    def __init__(self, clock=0):
        self.clock = clock    # index of the portfolio's own clock (can run ahead of the broker's)
        self.cash = Fraction(0)
        self.pos = {}
        self.pending = []     # (asset, qty)
        self.hist = []        # (type, instant index, debit, credit, balance) exact values


class Fail(dict):
    pass


def fail(clause, detail, signature=None):
    return {'clause': clause, 'detail': detail, 'signature': signature}


class BrokerMachine(object):
    def __init__(self, fee=('zero',), base='USD'):
        from qstrader.broker.simulated_broker import SimulatedBroker
        from qstrader.exchange.simulated_exchange import SimulatedExchange
        self.fee = tuple(fee)
        self.dh = StubDataHandler()
        self.exchange = SimulatedExchange(INSTANTS[0])
        self.base = base
        self.broker = SimulatedBroker(INSTANTS[0], self.exchange, self.dh, account_id='acct', base_currency=base,
                                      fee_model=make_fee(self.fee))
        # model
        self.master = Fraction(0)
        self.pfs = OrderedDict()
        self.clock = 0
        self.net_external = Fraction(0)     # account subscriptions - withdrawals
        self.fill_outflow = Fraction(0)     # sum over fills of price*qty + commission
        self.n_fills = 0
        self.step_txns = []
        self.filled_ids = {}
        self.submitted = 0
        self.labels_used = set()      # user-chosen order ids seen so far (part of the canonical key: ids may repeat)

    # ------------------------------------------------------------------ recording seam
    def _wrap(self, pid):
        p = self.broker.portfolios[pid]
        orig = p.transact_asset
        log = self.step_txns

        def rec(txn, _orig=orig, _pid=pid):
            _orig(txn)
            log.append((_pid, txn))
        p.transact_asset = rec

    def now(self):
        return INSTANTS[self.clock]

    def quoted_master(self):
        """the master balance as a statement would quote it: rounded to cents (may exceed the true balance by a
        fraction of a cent, in which case transferring it must be refused)"""
        return round(float(self.master), 2)

    def quoted_cash(self, pid):
        """a portfolio's cash as its history quotes it: rounded to cents (may exceed the true cash by a fraction of a
        cent, in which case withdrawing it must be refused - and a refusal moves nothing)"""
        return round(float(self.pfs[pid].cash), 2)

    def touched(self, ev):
        """Portfolios whose history can have grown in the step that executed ev."""
        if ev[0] in ('pf_sub', 'pf_wd', 'pf_direct_sub', 'pf_sub_quoted', 'pf_wd_quoted', 'fill_refused'):
            return {ev[1]}
        if ev[0] == 'tick':
            return set(pid for pid, _ in self.step_txns)
        return set()

    # ------------------------------------------------------------------ one event
    def step(self, ev, check=True):
        """Executes ev on the real broker and on the model. Returns list of failures."""
        b = self.broker
        kind = ev[0]
        del self.step_txns[:]
        fails = []
        expect_exc = None
        # ---- model pre-decision: is the request refused?
        if kind == 'acct_sub':
            a = F(ev[1])
            if a < 0:
                expect_exc = ValueError
        elif kind == 'acct_wd':
            a = F(ev[1])
            if a < 0 or a > self.master:
                expect_exc = ValueError
        elif kind == 'create':
            if ev[1] in self.pfs:
                expect_exc = ValueError
        elif kind == 'pf_sub':
            a = F(ev[2])
            if a < 0:
                expect_exc = ValueError
            elif ev[1] not in self.pfs:
                expect_exc = KeyError
            elif a > self.master:
                expect_exc = ValueError
            elif self.clock < self.pfs[ev[1]].clock:
                expect_exc = ValueError        # the portfolio refuses a timestamp earlier than its clock
        elif kind in ('pf_wd', 'pf_wd_quoted'):
            if kind == 'pf_wd_quoted' and ev[1] not in self.pfs:
                raise HarnessError('pf_wd_quoted on unknown portfolio in alphabet')
            a = F(ev[2]) if kind == 'pf_wd' else F(repr(self.quoted_cash(ev[1])))
            if a < 0:
                expect_exc = ValueError
            elif ev[1] not in self.pfs:
                expect_exc = KeyError
            elif a > self.pfs[ev[1]].cash:
                expect_exc = ValueError
            elif self.clock < self.pfs[ev[1]].clock:
                expect_exc = ValueError
        elif kind == 'tick':
            if any(ev[1] < p.clock or any(ev[1] < mp.clock for mp in p.pos.values()) for p in self.pfs.values()):
                expect_exc = ValueError        # a clock update earlier than a portfolio / position clock is refused
        elif kind == 'mark_at':
            p = self.pfs.get(ev[1])
            if p is None:
                raise HarnessError('mark_at on unknown portfolio in alphabet')
            mp = p.pos.get(ev[2])
            if mp is not None and (ev[4] < p.clock or ev[4] < mp.clock):
                expect_exc = ValueError
        elif kind == 'fill_refused':
            # a fill handed to the portfolio directly which the position must refuse (price 0 on a held asset);
            # it carries a commission, so a cash leg settled before the refusal would show
            if ev[1] not in self.pfs or ev[2] not in self.pfs[ev[1]].pos:
                raise HarnessError('fill_refused needs a held asset in the alphabet')
            expect_exc = ValueError
        elif kind == 'pf_direct_sub':
            if ev[1] not in self.pfs:
                raise HarnessError('pf_direct_sub on unknown portfolio in alphabet')
            if F(ev[2]) < 0 or ev[3] < self.pfs[ev[1]].clock:
                expect_exc = ValueError
        elif kind in ('submit', 'submit_labelled', 'submit_backdated'):
            if ev[1] not in self.pfs:
                expect_exc = KeyError
        elif kind == 'pf_sub_quoted':
            a = F(repr(self.quoted_master()))
            if ev[1] not in self.pfs:
                expect_exc = KeyError
            elif a > self.master:
                expect_exc = ValueError
            elif self.clock < self.pfs[ev[1]].clock:
                expect_exc = ValueError
        before = None
        if check and expect_exc is not None:
            try:
                before = self._plain(self.observe())
            except Exception:  # noqa
                before = None
        # ---- implementation
        got_exc = None
        try:
            if kind == 'acct_sub':
                b.subscribe_funds_to_account(float(ev[1]))
            elif kind == 'acct_wd':
                b.withdraw_funds_from_account(float(ev[1]))
            elif kind == 'create':
                b.create_portfolio(ev[1], name='pf' + ev[1])
            elif kind == 'pf_sub':
                b.subscribe_funds_to_portfolio(ev[1], float(ev[2]))
            elif kind == 'pf_wd':
                b.withdraw_funds_from_portfolio(ev[1], float(ev[2]))
            elif kind == 'pf_wd_quoted':
                b.withdraw_funds_from_portfolio(ev[1], self.quoted_cash(ev[1]))
            elif kind == 'submit':
                from qstrader.execution.order import Order
                self.submitted += 1
                o = Order(self.now(), ev[2], int(ev[3]), order_id='o%d' % self.submitted)
                b.submit_order(ev[1], o)
            elif kind == 'submit_backdated':
                # an order prepared earlier (its created_dt is the broker's start) and sent only now: its place in
                # the queue is the place of its SUBMISSION
                from qstrader.execution.order import Order
                self.submitted += 1
                o = Order(INSTANTS[0], ev[2], int(ev[3]), order_id='o%d' % self.submitted)
                b.submit_order(ev[1], o)
            elif kind == 'submit_labelled':
                # the user supplies his own order id and reuses the label (ids need not be unique)
                from qstrader.execution.order import Order
                o = Order(self.now(), ev[2], int(ev[3]), order_id='rebalance-%s' % ev[2])
                self.labels_used.add(o.order_id)
                b.submit_order(ev[1], o)
            elif kind == 'pf_sub_quoted':
                b.subscribe_funds_to_portfolio(ev[1], self.quoted_master())
            elif kind == 'quotes':
                self.dh.table = int(ev[1])
            elif kind == 'tick':
                if ev[1] < self.clock:
                    raise HarnessError('tick back in time in a valid alphabet')
                b.update(INSTANTS[ev[1]])
            elif kind == 'mark':
                b.portfolios[ev[1]].update_market_value_of_asset(ev[2], float(ev[3]), self.now())
            elif kind == 'fill_refused':
                from qstrader.broker.transaction.transaction import Transaction
                b.portfolios[ev[1]].transact_asset(Transaction(ev[2], 1, self.now(), 0.0, 'refused', commission=1.25))
            elif kind == 'pf_direct_sub':
                b.portfolios[ev[1]].subscribe_funds(INSTANTS[ev[3]], float(ev[2]))
            elif kind == 'mark_at':
                b.portfolios[ev[1]].update_market_value_of_asset(ev[2], float(ev[3]), INSTANTS[ev[4]])
            else:
                raise HarnessError('unknown event %r' % (ev,))
        except HarnessError:
            raise
        except Exception as e:  # noqa
            got_exc = e
        # ---- refusal agreement (C15's clauses)
        if expect_exc is not None:
            if got_exc is None:
                fails.append(fail('C15.silent_acceptance', {'event': ev}, 'valid-path:%s' % kind))
            elif not isinstance(got_exc, expect_exc):
                fails.append(fail('C15.error_type', {'event': ev, 'got': repr(got_exc),
                                                     'expected': expect_exc.__name__},
                                  'valid-path:%s' % kind))
        elif got_exc is not None:
            fails.append(fail('C15.spurious_refusal', {'event': ev, 'got': repr(got_exc)},
                              'valid-path:%s:%s' % (kind, type(got_exc).__name__)))
        if before is not None and got_exc is not None:
            try:
                after = self._plain(self.observe())
            except Exception:  # noqa
                after = None
            if after != before:
                changed = sorted(k for k in set(before) | set(after or {}) if (after or {}).get(k) != before.get(k))
                fails.append(fail('C15.state_changed', {'event': ev, 'error': repr(got_exc), 'changed': changed},
                                  'valid-path:%s:%s' % (kind, ','.join(sorted(set(c.split('.')[-1] for c in changed))))))
        # ---- model transition (only for accepted requests)
        if expect_exc is None:
            fails.extend(self._model_apply(ev, got_exc))
        if got_exc is None and kind == 'create' and expect_exc is None:
            self._wrap(ev[1])
        if check:
            fails.extend(self.compare(ev))
        return fails

    def _model_apply(self, ev, got_exc):
        kind = ev[0]
        fails = []
        if kind == 'acct_sub':
            self.master += F(ev[1])
            self.net_external += F(ev[1])
        elif kind == 'acct_wd':
            self.master -= F(ev[1])
            self.net_external -= F(ev[1])
        elif kind == 'create':
            self.pfs[ev[1]] = MPortfolio(self.clock)
        elif kind == 'pf_direct_sub':
            p = self.pfs[ev[1]]
            a = F(ev[2])
            p.cash += a
            p.clock = ev[3]
            self.net_external += a          # money that enters the portfolio directly, not through the master
            p.hist.append(('subscription', ev[3], Fraction(0), a, p.cash))
        elif kind == 'pf_sub':
            p = self.pfs[ev[1]]
            a = F(ev[2])
            self.master -= a
            p.cash += a
            p.clock = self.clock
            p.hist.append(('subscription', self.clock, Fraction(0), a, p.cash))
        elif kind in ('pf_wd', 'pf_wd_quoted'):
            p = self.pfs[ev[1]]
            a = F(ev[2]) if kind == 'pf_wd' else F(repr(self.quoted_cash(ev[1])))
            self.master += a
            p.cash -= a
            p.clock = self.clock
            p.hist.append(('withdrawal', self.clock, a, Fraction(0), p.cash))
        elif kind in ('submit', 'submit_backdated'):
            self.pfs[ev[1]].pending.append((ev[2], int(ev[3]), 'o%d' % self.submitted))
        elif kind == 'submit_labelled':
            self.pfs[ev[1]].pending.append((ev[2], int(ev[3]), 'rebalance-%s' % ev[2]))
        elif kind == 'pf_sub_quoted':
            p = self.pfs[ev[1]]
            a = F(repr(self.quoted_master()))
            self.master -= a
            p.cash += a
            p.clock = self.clock
            p.hist.append(('subscription', self.clock, Fraction(0), a, p.cash))
        elif kind == 'quotes':
            pass
        elif kind == 'mark':
            p = self.pfs[ev[1]]
            if ev[2] in p.pos:
                p.pos[ev[2]].last = F(ev[3])
                p.pos[ev[2]].clock = max(p.pos[ev[2]].clock, self.clock)
        elif kind == 'mark_at':
            p = self.pfs[ev[1]]
            if ev[2] in p.pos:
                p.pos[ev[2]].last = F(ev[3])
                p.pos[ev[2]].clock = ev[4]
        elif kind == 'tick':
            fails.extend(self._model_tick(ev[1]))
        return fails

    def _model_tick(self, j):
        fails = []
        self.clock = j
        tab = QUOTES[self.dh.table]
        # marks: every held asset of every portfolio to the handler's mid
        for p in self.pfs.values():
            for asset, mp in p.pos.items():
                bid, ask = F(tab[asset][0]), F(tab[asset][1])
                mp.last = (bid + ask) / 2
                mp.clock = j
        actual = list(self.step_txns)
        # ---- C04: which orders fill, fully, once, in which order
        expected = []
        if OPEN[j]:
            for pid, p in self.pfs.items():
                for (asset, qty, oid) in p.pending:
                    expected.append((pid, asset, qty, oid))
                p.pending = []
        exp_multi = sorted((pid, asset, qty, oid) for pid, asset, qty, oid in expected)
        act_multi = sorted((pid, t.asset, int(t.quantity) if float(t.quantity).is_integer() else t.quantity,
                            t.order_id) for pid, t in actual)
        if not OPEN[j] and actual:
            fails.append(fail('C04.filled_while_closed', {'instant': str(INSTANTS[j]),
                                                          'fills': [repr(t) for _, t in actual]}))
        elif exp_multi != act_multi:
            fails.append(fail('C04.fill_set', {'instant': str(INSTANTS[j]), 'expected': exp_multi,
                                               'actual': act_multi}))
        else:
            # all sells before any buy over the whole update
            dirs = [1 if t.quantity > 0 else -1 for _, t in actual]
            if dirs != sorted(dirs):
                fails.append(fail('C04.sells_first', {'instant': str(INSTANTS[j]),
                                                      'order': [(pid, t.asset, t.quantity) for pid, t in actual]}))
            # same side, same portfolio: submission order
            for pid in self.pfs:
                for side in (-1, 1):
                    exp_ids = [oid for (pp, a, q, oid) in expected if pp == pid and (q > 0) == (side > 0)]
                    act_ids = [t.order_id for pp, t in actual if pp == pid and (t.quantity > 0) == (side > 0)]
                    if exp_ids != act_ids:
                        fails.append(fail('C04.submission_order', {'portfolio': pid, 'side': side,
                                                                   'expected': exp_ids, 'actual': act_ids}))
        for pid, t in actual:
            self.filled_ids[t.order_id] = self.filled_ids.get(t.order_id, 0) + 1
        # ---- C05: price side, commission, stamp of every recorded fill
        for pid, t in actual:
            q = tab.get(t.asset)
            if q is None:
                continue
            bid, ask = F(q[0]), F(q[1])
            want = ask if t.quantity > 0 else bid
            if not close(t.price, want):
                fails.append(fail('C05.price_side', {'asset': t.asset, 'qty': t.quantity, 'price': t.price,
                                                     'bid': str(q[0]), 'ask': str(q[1])}))
            else:
                comms = ref_commission(self.fee, want, Fraction(int(t.quantity)))
                if not any(close(t.commission, c) for c in comms):
                    fails.append(fail('C05.commission', {'asset': t.asset, 'qty': t.quantity, 'price': t.price,
                                                         'commission': t.commission,
                                                         'expected': [float(c) for c in comms], 'fee': self.fee}))
                if len(comms) > 1:
                    self.ambiguous = getattr(self, 'ambiguous', 0) + 1
            if t.dt != INSTANTS[j]:
                fails.append(fail('C05.timestamp', {'txn_dt': str(t.dt), 'update': str(INSTANTS[j])}))
        # ---- ledger follows the fills as recorded (C01 / C02 are relative to them)
        for pid, t in actual:
            p = self.pfs[pid]
            p.clock = j
            price, qty, comm = Fx(t.price), Fraction(int(t.quantity)), Fx(t.commission)
            cost = price * qty + comm
            p.cash -= cost
            self.fill_outflow += cost
            self.n_fills += 1
            mp = p.pos.get(t.asset)
            if mp is None:
                mp = p.pos[t.asset] = MPos()
            mp.qty += int(t.quantity)
            mp.last = price
            mp.clock = j
            if mp.qty == 0:
                del p.pos[t.asset]
            if qty > 0:
                p.hist.append(('asset_transaction', j, cost, Fraction(0), p.cash))
            else:
                p.hist.append(('asset_transaction', j, Fraction(0), -cost, p.cash))
        return fails

    # ------------------------------------------------------------------ observation
    def pending_impl(self, pid):
        q = self.broker.open_orders[pid]
        return [(o.asset, o.quantity, o.order_id) for o in list(q.queue)]

    def observe(self):
        b = self.broker
        o = {'master': b.get_account_cash_balance(b.base_currency), 'pf': OrderedDict(),
             'other_currencies': {c: v for c, v in dict(b.get_account_cash_balance()).items() if c != b.base_currency}}
        for pid in self.pfs:
            d = b.get_portfolio_as_dict(pid)
            o['pf'][pid] = {
                'cash': b.get_portfolio_cash_balance(pid),
                'dict': d,
                'mv': b.get_portfolio_total_market_value(pid),
                'eq': b.get_portfolio_total_equity(pid),
                'pending': self.pending_impl(pid),
                'hist': list(b.portfolios[pid].history),
            }
        return o

    @staticmethod
    def _plain(o):
        """observation -> flat dict of comparable values (for exact before/after comparison)"""
        out = {'master': o['master'], 'other_currencies': repr(sorted(o.get('other_currencies', {}).items()))}
        for pid, po in o['pf'].items():
            out['%s.cash' % pid] = po['cash']
            out['%s.holdings' % pid] = repr(sorted((a, sorted(r.items())) for a, r in po['dict'].items()))
            out['%s.pending' % pid] = repr(po['pending'])
            out['%s.history' % pid] = repr([(str(h.dt), h.type, h.debit, h.credit, h.balance) for h in po['hist']])
        return out

    def compare(self, ev):
        """All post-state clauses of C01, C02, C04 against the ledger."""
        fails = []
        b = self.broker
        try:
            o = self.observe()
        except Exception as e:
            return [fail('C01.getter_raised', {'event': ev, 'error': repr(e)})]
        # ---- C01 cash
        if not close(o['master'], self.master):
            fails.append(fail('C01.master_cash', {'event': ev, 'impl': o['master'], 'ref': float(self.master)}))
        if any(v != 0 for v in o['other_currencies'].values()):
            fails.append(fail('C01.other_currency_balance', {'event': ev, 'base': self.base, 'balances': o['other_currencies']}))
        for pid, p in self.pfs.items():
            po = o['pf'][pid]
            if not close(po['cash'], p.cash):
                fails.append(fail('C01.portfolio_cash', {'event': ev, 'portfolio': pid, 'impl': po['cash'],
                                                         'ref': float(p.cash)}))
            # ---- C02 holdings
            held = {a: mp for a, mp in p.pos.items() if mp.qty != 0}
            if set(po['dict'].keys()) != set(held.keys()):
                fails.append(fail('C02.holdings_set', {'event': ev, 'portfolio': pid,
                                                       'impl': sorted(po['dict'].keys()), 'ref': sorted(held)}))
            else:
                mv = Fraction(0)
                for a, mp in held.items():
                    row = po['dict'][a]
                    if not close(row['quantity'], mp.qty):
                        fails.append(fail('C02.quantity', {'event': ev, 'portfolio': pid, 'asset': a,
                                                           'impl': row['quantity'], 'ref': mp.qty}))
                    want = mp.qty * mp.last
                    mv += want
                    if not close(row['market_value'], want):
                        fails.append(fail('C02.market_value', {'event': ev, 'portfolio': pid, 'asset': a,
                                                               'impl': row['market_value'], 'ref': float(want),
                                                               'qty': mp.qty, 'last_price': float(mp.last)}))
                if not close(po['mv'], mv):
                    fails.append(fail('C02.total_market_value', {'event': ev, 'portfolio': pid, 'impl': po['mv'],
                                                                 'ref': float(mv)}))
                if not close(po['eq'], mv + p.cash):
                    fails.append(fail('C02.total_equity', {'event': ev, 'portfolio': pid, 'impl': po['eq'],
                                                           'ref': float(mv + p.cash)}))
            # ---- C04 pending queue
            want_pending = [(a, q, oid) for a, q, oid in p.pending]
            if [(a, q, oid) for a, q, oid in po['pending']] != want_pending:
                fails.append(fail('C04.pending_queue', {'event': ev, 'portfolio': pid, 'impl': po['pending'],
                                                        'ref': want_pending}))
            # ---- C01 history
            fails.extend(self._compare_history(ev, pid, p, po['hist']))
        # ---- C01 account totals
        for name, getter, per in (('total_equity', 'get_account_total_equity', 'eq'),
                                  ('total_market_value', 'get_account_total_market_value', 'mv')):
            try:
                tot = getattr(b, getter)()
            except Exception as e:
                fails.append(fail('C01.totals_obtainable', {'event': ev, 'getter': getter, 'error': repr(e)},
                                  getter))
                continue
            want_keys = set(self.pfs.keys()) | {'master'}
            if set(tot.keys()) != want_keys:
                fails.append(fail('C01.totals_keys', {'getter': getter, 'impl': sorted(tot.keys()),
                                                      'ref': sorted(want_keys)}))
                continue
            s = 0.0
            for pid in self.pfs:
                s += o['pf'][pid][per]
                if not close(tot[pid], o['pf'][pid][per]):
                    fails.append(fail('C01.totals_entry', {'getter': getter, 'portfolio': pid, 'impl': tot[pid],
                                                           'per_portfolio_getter': o['pf'][pid][per]}))
            if not close(tot['master'], s):
                fails.append(fail('C01.totals_sum', {'getter': getter, 'impl': tot['master'], 'sum': s}))
        # ---- C01 global conservation
        total_cash = Fx(o['master']) + sum(Fx(o['pf'][pid]['cash']) for pid in self.pfs)
        if not close(total_cash + self.fill_outflow, self.net_external):
            fails.append(fail('C01.conservation', {'event': ev, 'cash_everywhere': float(total_cash),
                                                   'fill_outflow': float(self.fill_outflow),
                                                   'net_external': float(self.net_external)}))
        return fails

    def _compare_history(self, ev, pid, p, hist):
        fails = []
        if len(hist) != len(p.hist):
            return [fail('C01.history_length', {'event': ev, 'portfolio': pid, 'impl': len(hist),
                                                'ref': len(p.hist), 'impl_events': [repr(h) for h in hist[-3:]]})]
        for i, (h, m) in enumerate(zip(hist, p.hist)):
            typ, j, debit, credit, bal = m
            if h.type != typ or h.dt != INSTANTS[j]:
                fails.append(fail('C01.history_entry', {'event': ev, 'portfolio': pid, 'index': i, 'impl': repr(h),
                                                        'ref': (typ, str(INSTANTS[j]))}))
                continue
            if not (cents_ok(h.debit, debit) and cents_ok(h.credit, credit)):
                fails.append(fail('C01.history_amount', {'event': ev, 'portfolio': pid, 'index': i, 'impl': repr(h),
                                                         'ref_debit': float(debit), 'ref_credit': float(credit)}))
            if not cents_ok(h.balance, bal):
                fails.append(fail('C01.history_balance', {'event': ev, 'portfolio': pid, 'index': i,
                                                          'impl': h.balance, 'ref': float(bal)}))
        return fails

    def compare_history_df(self, only=None):
        """history_to_df() lists the same rows as Portfolio.history (C01 iii)."""
        fails = []
        for pid in self.pfs:
            if only is not None and pid not in only:
                continue
            port = self.broker.portfolios[pid]
            try:
                df = port.history_to_df()
            except Exception as e:
                fails.append(fail('C01.history_df', {'portfolio': pid, 'error': repr(e)}))
                continue
            hist = port.history
            rows = list(zip(df['type'].tolist(), df['debit'].tolist(), df['credit'].tolist(),
                            df['balance'].tolist()))
            want = [(h.type, h.debit, h.credit, h.balance) for h in hist]
            if rows != want:
                fails.append(fail('C01.history_df', {'portfolio': pid, 'df_rows': rows[-3:], 'history': want[-3:]}))
        return fails

    # ------------------------------------------------------------------ canonical key
    def canon(self):
        """(clock, quote table, master cash, per portfolio cash / position internals / pending
        queue / history length) of the implementation  U  the ledger state.

        Sound: every future transition and every observer of C01/C02/C04/C05/C15 reads only
        these fields; history *contents* are append-only and compared in full on every
        transition, so equal keys have equal futures .  Floats are rounded to 1e-7,
        five orders below the smallest alphabet increment."""
        b = self.broker
        parts = [self.clock, self.dh.table, round(float(b.get_account_cash_balance(b.base_currency)), 7),
                 str(self.master), tuple(sorted(self.labels_used))]
        for pid, p in self.pfs.items():
            port = b.portfolios[pid]
            pos = []
            # what every user can read of each position ...
            for asset, row in b.get_portfolio_as_dict(pid).items():
                pos.append((asset, tuple(sorted((k, round(float(v), 7)) for k, v in row.items()
                                                if isinstance(v, (int, float, np.floating, np.integer))))))
            # ... refined by the numeric fields of the position objects where the library keeps them where it
            # does today (a finer key only costs time; a library that stores them elsewhere is not an error)
            try:
                for asset, ps in port.pos_handler.positions.items():
                    vals = tuple(sorted((k, round(float(v), 7)) for k, v in vars(ps).items()
                                        if isinstance(v, (int, float, np.floating, np.integer))))
                    pos.append((asset, vals))
            except Exception:  # noqa
                pass
            parts.append((pid, p.clock, str(getattr(port, 'current_dt', '')), round(float(port.cash), 7), tuple(sorted(pos)),
                          tuple((a, q, oid if str(oid).startswith('rebalance-') else '') for a, q, oid in self.pending_impl(pid)),
                          _ranks([getattr(o, 'created_dt', None) for o in list(b.open_orders[pid].queue)]),
                          str(p.cash), tuple(sorted((a, mp.qty, str(mp.last), mp.clock) for a, mp in p.pos.items())),
                          tuple((a, q) for a, q, _ in p.pending)))
        return digest(tuple(parts))


def _ranks(stamps):
    """creation stamps of the queued orders as ranks (ties equal): which order is older than which is part of the
    state, when exactly each was created is not (nothing in the statement ages an order)"""
    vals = sorted(set(str(x) for x in stamps))
    return tuple(vals.index(str(x)) for x in stamps)


def build(fee, hist, check_last=False, base='USD'):
    m = BrokerMachine(fee, base)
    fails = []
    n = len(hist)
    for i, ev in enumerate(hist):
        last = (i == n - 1)
        f = m.step(tuple(ev), check=(check_last and last))
        if last:
            fails = f
        elif f:
            # a prefix that already failed is never extended by the search; on replay report it
            fails = f
            break
        else:
            # every intermediate state is READ through the public getters, exactly as it was when
            # it was the last state of a shorter history (users read equity / holdings all the time;
            # a getter that caches or otherwise changes state must show up, and replays must take
            # the same observation sequence as the exploration did)
            try:
                m.observe()
                m.broker.get_account_total_equity()
            except Exception:  # noqa
                pass
    return m, fails


class BrokerSpec(object):
    """BFS harness over BrokerMachine for one property (own = clause prefix it reports)."""

    def __init__(self, prop, fee, initials, alphabet, df_check=False, label='', base='USD'):
        self.base = base
        self.prop = prop
        self.own = prop + '.'
        self.fee = tuple(fee)
        self.initials = [tuple(tuple(e) for e in h) for h in initials]
        self.alphabet = alphabet
        self.df_check = df_check
        self.label = label

    def case(self, hist):
        return {'harness': 'broker', 'fee': list(self.fee), 'base': self.base, 'history': [list(e) for e in hist]}

    def _eval(self, hist):
        m, fails = build(self.fee, hist, check_last=True, base=self.base)
        if self.df_check and hist:
            fails = fails + m.compare_history_df(only=m.touched(hist[-1]))
        own = [dict(f, case=self.case(hist)) for f in fails if f['clause'].startswith(self.own)]
        key = None if fails else m.canon()
        kind = hist[-1][0] if hist else 'init'
        tags = {'outcomes': [(kind, len(m.step_txns), bool(fails))],
                'nontrivial': m.n_fills > 0,
                'ambiguous': getattr(m, 'ambiguous', 0) if hist and hist[-1][0] == 'tick' else 0}
        return m, key, own, tags

    def initial(self):
        return list(self.initials)

    def check_initial(self, hist):
        _, key, own, tags = self._eval(hist)
        return key, own, tags

    def rebuild_key(self, hist):
        return self._eval(hist)[1]

    def expand(self, hist):
        m0, _ = build(self.fee, hist, check_last=False, base=self.base)
        outs = []
        for ev in self.alphabet(m0):
            _, key, own, tags = self._eval(hist + (tuple(ev),))
            outs.append((tuple(ev), key, own, tags))
        return outs


def replay_broker(case, own_prefix):
    hist = tuple(tuple(e) for e in case['history'])
    m, fails = build(tuple(case['fee']), hist, check_last=True, base=case.get('base', 'USD'))
    if case.get('df_check') and hist:
        fails = fails + m.compare_history_df(only=m.touched(hist[-1]))
    return [f for f in fails if f['clause'].startswith(own_prefix)]


def minimise_broker(case, clause, own_prefix, keep_last=True):
    """Greedy event deletion while the same clause still fails."""
    hist = [list(e) for e in case['history']]
    i = 0
    while i < len(hist) - (1 if keep_last else 0):
        trial = hist[:i] + hist[i + 1:]
        c2 = dict(case, history=trial)
        try:
            ok = any(f['clause'] == clause for f in replay_broker(c2, own_prefix))
        except HarnessError:
            ok = False
        if ok:
            hist = trial
        else:
            i += 1
    return dict(case, history=hist)


def next_open(clock):
    for j in range(clock, len(INSTANTS)):
        if OPEN[j]:
            return j
    return None


# ------------------------------------------------------------------------------------------
# long periodic histories: every cycle of up to ``max_cycle`` events over a small alphabet, repeated
# many times (all at one open instant, so fills keep happening).  A complement to the depth-bounded
# BFS for behaviour that depends on a COUNT (the n-th fill, a history longer than n entries, a cache
# or queue that fills up): the family is finite and enumerated completely.
# ------------------------------------------------------------------------------------------
PERIODIC_PREFIX = (('acct_sub', '900000'), ('create', '1'), ('create', '2'), ('pf_sub', '1', '300000'),
                   ('pf_sub', '2', '300000'), ('tick', 3))
PERIODIC_EVENTS = [('submit', '1', 'A', 3), ('submit', '1', 'A', -3), ('submit', '1', 'Bq', 5), ('submit', '2', 'A', -8),
                   ('submit', '2', 'Bq', 2), ('submit', '2', 'A', 40000),      # the last one costs more than the cash held
                   ('tick', 3), ('quotes', 1), ('quotes', 0), ('pf_sub', '1', '99.995'),
                   ('pf_wd', '1', '16.667')]


def periodic_items(fees, max_cycle=2, repeats=(40, 150)):
    import itertools
    out = []
    for fee in fees:
        for n in range(1, max_cycle + 1):
            for cyc in itertools.product(PERIODIC_EVENTS, repeat=n):
                if not any(e[0] == 'tick' for e in cyc) and not all(e[0] in ('pf_sub', 'pf_wd') for e in cyc):
                    cyc = cyc + (('tick', 3),)          # orders only: flush them once per cycle
                out.append({'fee': list(fee), 'cycle': [list(e) for e in cyc], 'repeats': list(repeats)})
    return out


def periodic_point(item, own_prefix, df_check=False):
    """replays prefix + cycle x r for each r in repeats; full comparison after the last event of each"""
    import contextlib
    import io
    from qstrader import settings as _settings
    fee = tuple(item['fee'])
    cyc = [tuple(e) for e in item['cycle']]
    viols, n = [], 0
    for k, r in enumerate(item['repeats']):
        hist = PERIODIC_PREFIX + tuple(cyc) * r
        # the shorter run of each pair is made with event printing ON (the library default; output discarded):
        # what is printed must not change what is done
        with contextlib.redirect_stdout(io.StringIO()):
            if k == 0:
                _settings.set_print_events(True)
            try:
                m, fails = build(fee, hist, check_last=True)
            finally:
                _settings.set_print_events(False)
        if df_check:
            fails = fails + m.compare_history_df(only=set(m.pfs))
        n += 1
        own = [f for f in fails if f['clause'].startswith(own_prefix)]
        for f in own:
            viols.append(dict(f, case={'harness': 'periodic', 'fee': list(fee), 'cycle': item['cycle'], 'repeat': r}))
        if fails:
            break
    return {'viols': viols[:4], 'execs': n, 'evals': n, 'nontrivial': True, 'outcome': None,
            'counters': {'periodic_histories': n, 'periodic_events': sum(item['repeats'][:n]) * len(cyc)}}


def replay_periodic(case, own_prefix, df_check=False):
    item = {'fee': case['fee'], 'cycle': case['cycle'], 'repeats': [case['repeat']]}
    return periodic_point(item, own_prefix, df_check)['viols']
