"""Command line of the checks.

    python -m mc.run C01 --tier quick|thorough     run one property check
    python -m mc.run --replay <file>               re-execute a stored violation without the explorer
    python -m mc.run --selftest                    setup_cmd: imports, tiny searches, evidence schema

Exit status: 0 property held on everything explored (KNOWN-FINDING lines possible),
1 + "VIOLATION property=<id> replay=<path>" for a violation that is not a listed finding,
2 harness error (never a verdict).
"""
import argparse
import importlib
import json
import os
import sys
import time
import traceback

from . import env
from .core import Result, hexdigest
from .env import HarnessError, VERIF

PROPS = ['C%02d' % i for i in range(1, 20)]
KNOWN_FILE = os.path.join(VERIF, 'known_findings.json')
REPLAY_DIR = os.environ.get('VERIF_REPLAY_DIR') or os.path.join(VERIF, 'replays')
EVIDENCE_DIR = os.environ.get('VERIF_EVIDENCE_DIR') or os.path.join(VERIF, 'evidence')


def load_known():
    try:
        with open(KNOWN_FILE) as f:
            return json.load(f).get('findings', [])
    except FileNotFoundError:
        return []


def known_matcher(prop, known):
    opens = [k for k in known if k.get('property') == prop and k.get('status') == 'open']

    def is_known(v):
        for k in opens:
            if k.get('clause') == v.get('clause') and k.get('signature') == v.get('signature'):
                return k
        return None
    return is_known


def jsonable(o):
    if isinstance(o, dict):
        return {str(k): jsonable(v) for k, v in o.items()}
    if isinstance(o, (list, tuple, set, frozenset)):
        seq = sorted(o, key=repr) if isinstance(o, (set, frozenset)) else o
        return [jsonable(x) for x in seq]
    if isinstance(o, (str, int, bool)) or o is None:
        return o
    if isinstance(o, float):
        if o != o or o in (float('inf'), float('-inf')):
            return repr(o)
        return o
    if isinstance(o, bytes):
        return o.hex()
    return repr(o)


def module_for(prop):
    return importlib.import_module('mc.props.%s' % prop.lower())


def _child_replay_case(modname, case):
    mod = importlib.import_module(modname)
    return [(f['clause'], f.get('signature') or '', jsonable(f.get('detail'))) for f in mod.replay(case)]


def _child_minimise(modname, case, clause):
    mod = importlib.import_module(modname)
    return json.loads(json.dumps(jsonable(mod.minimise(case, clause))))


def _child_replay_sequence(ctx):
    """Re-executes the recorded chunk context (the executions that preceded the failing one in its
    process) followed by the failing execution; returns the violations of the last one."""
    if ctx['engine'] == 'product':
        func = getattr(importlib.import_module(ctx['module']), ctx['func'])
        out = None
        for it in list(ctx['prefix']) + [ctx['item']]:
            out = func(it)
        viols = out.get('viols', [])
    else:
        spec = ctx['_spec']
        if ctx['kind'] == 'initial':
            viols = spec.check_initial(tuple(tuple(e) for e in ctx['item']))[1]
        else:
            for h in ctx['prefix']:
                spec.expand(tuple(tuple(e) for e in h))
            outs = spec.expand(tuple(tuple(e) for e in ctx['item']))
            viols = [v for ev, key, vs, tags in outs if list(ev) == list(ctx['event']) for v in vs]
    return [(v['clause'], v.get('signature') or '', jsonable(v.get('detail')), jsonable(v.get('case'))) for v in viols]


def confirm_and_write(prop, mod, v):
    """Replay the violation twice, each time in a pristine process; identical observations required.

    1. stand-alone: the stored case alone reproduces the clause (the normal situation);
    2. otherwise with its recorded chunk context (the executions that ran before it in the same
       process): the violation depends on state that leaks between executions - still a genuine,
       deterministic violation, and the replay file carries the whole sequence;
    3. otherwise the harness is at fault (exit 2, never a verdict)."""
    import base64
    import pickle
    from .core import in_child
    modname = mod.__name__
    case = json.loads(json.dumps(jsonable(v['case'])))   # exactly what the file will hold
    ctx = v.get('_ctx')
    obs = [in_child(_child_replay_case, modname, case) for _ in range(2)]
    keys = [sorted((c, s) for c, s, _ in o) for o in obs]
    if keys[0] != keys[1]:
        raise HarnessError('replay of %s is not deterministic: %r vs %r' % (v['clause'], keys[0], keys[1]))
    detail = v.get('detail')
    rec = {'property': prop, 'clause': v['clause'], 'signature': v.get('signature'),
           'replay_cmd': '/venv/bin/python -m mc.run --replay <this file>'}
    if v['clause'] in [c for c, _ in keys[0]]:
        if hasattr(mod, 'minimise'):
            case = in_child(_child_minimise, modname, case, v['clause'])
            again = [d for c, s, d in in_child(_child_replay_case, modname, case) if c == v['clause']]
            if not again:
                raise HarnessError('minimised case of %s does not reproduce' % v['clause'])
            detail = again[0] if again[0] is not None else detail
        rec.update({'kind': 'case', 'case': case, 'detail': jsonable(detail)})
    else:
        if ctx is None:
            raise HarnessError('violation %s did not reproduce on replay (got %r); case=%r' % (
                v['clause'], keys[0], case))
        seq = [in_child(_child_replay_sequence, ctx) for _ in range(2)]
        k2 = [sorted((c, s) for c, s, _, _ in o) for o in seq]
        if k2[0] != k2[1] or v['clause'] not in [c for c, _ in k2[0]]:
            raise HarnessError('violation %s reproduces neither stand-alone (%r) nor with its chunk context (%r / %r); '
                               'case=%r' % (v['clause'], keys[0], k2[0], k2[1], case))
        blob = {k: val for k, val in ctx.items()}
        rec.update({'kind': 'sequence', 'case': case, 'detail': jsonable(detail), 'history_dependent': True,
                    'note': 'does not reproduce from a pristine process with this case alone: it needs the %d '
                            'execution(s) that preceded it in the same process (recorded below)' % len(ctx['prefix']),
                    'context': jsonable({k: val for k, val in ctx.items() if k != '_spec'}),
                    'context_pickle': base64.b64encode(pickle.dumps(blob)).decode()})
        v['signature'] = v.get('signature') or 'history-dependent'
    v['detail'] = detail
    os.makedirs(REPLAY_DIR, exist_ok=True)
    path = os.path.join(REPLAY_DIR, '%s-%s.json' % (prop, hexdigest((v['clause'], case, rec['kind']))))
    with open(path, 'w') as f:
        json.dump(rec, f, indent=1, sort_keys=True)
    return path


def write_evidence(prop, tier, seed, res, wall, n_viol, known_hits):
    cov = {
        'states': int(res.states),
        'transitions': int(res.transitions),
        'traces_validated_against_impl': int(res.executions),
        'evaluations': int(res.evaluations),
        'distinct_nontrivial': len(res.nontrivial),
        'distinct_outcomes': len(res.outcomes),
        'rule': res.rule,
        'samples': jsonable(res.samples) or [{'note': 'no sample recorded'}],
        'exhaustive': bool(res.exhaustive and not res.caps),
        'max_depth': int(res.max_depth),
        'bounds': jsonable(res.bounds),
        'caps_hit': list(res.caps),
        'boundary_ambiguous': int(res.boundary_ambiguous),
        'determinism_recheck': res.determinism,
        'parts': jsonable(res.parts),
        'explanation': 'the implementation itself is explored: every transition / point is one '
                       'execution of the real code, so traces_validated_against_impl = executions',
    }
    for k, v in res.extra.items():
        cov[k] = jsonable(sorted(v, key=repr)) if isinstance(v, (set, frozenset)) else jsonable(v)
    ev = {
        'property_id': prop, 'tier': tier, 'seed': seed, 'level': 'model_checking',
        'coverage': cov, 'assumptions': list(res.assumptions), 'wall_s': round(wall, 2),
        'violations': int(n_viol), 'known_findings_hit': known_hits,
        'repo': env.REPO,
    }
    os.makedirs(EVIDENCE_DIR, exist_ok=True)
    path = os.path.join(EVIDENCE_DIR, '%s.json' % prop)
    tmp = path + '.tmp'
    with open(tmp, 'w') as f:
        json.dump(ev, f, indent=1, sort_keys=True)
    os.replace(tmp, path)
    return path


def run_check(prop, tier, seed):
    t0 = time.time()
    env.setup()
    mod = module_for(prop)
    known = load_known()
    is_known = known_matcher(prop, known)
    res = Result(prop, tier)
    mod.run(tier, res, is_known)
    fresh, known_hits = [], []
    seen_known = set()
    for v in res.violations:
        k = is_known(v)
        if k is not None:
            sig = (k['clause'], k['signature'])
            if sig not in seen_known:
                seen_known.add(sig)
                known_hits.append(k)
            continue
        fresh.append(v)
    lines = []
    for k in known_hits:
        lines.append('KNOWN-FINDING: property=%s %s' % (prop, k.get('what', k['clause'])))
    done = set()
    for v in fresh:
        if v['clause'] in done:
            continue
        done.add(v['clause'])
        path = confirm_and_write(prop, mod, v)
        lines.append('VIOLATION property=%s replay=%s' % (prop, path))
        lines.append('  clause=%s detail=%s' % (v['clause'], json.dumps(jsonable(v.get('detail')))[:600]))
    wall = time.time() - t0
    n_fresh = res.violation_count() if fresh else 0
    write_evidence(prop, tier, seed, res, wall, n_fresh, [k.get('what') for k in known_hits])
    print('%s tier=%s states=%d transitions=%d executions=%d nontrivial=%d outcomes=%d '
          'exhaustive=%s caps=%d wall=%.1fs' % (
              prop, tier, res.states, res.transitions, res.executions, len(res.nontrivial),
              len(res.outcomes), res.exhaustive and not res.caps, len(res.caps), wall))
    for ln in lines:
        print(ln)
    sys.stdout.flush()
    return 1 if fresh else 0


def run_replay(path):
    env.setup()
    with open(path) as f:
        rec = json.load(f)
    mod = module_for(rec['property'])
    if rec.get('kind') == 'sequence':
        import base64
        import pickle
        ctx = pickle.loads(base64.b64decode(rec['context_pickle']))
        fails = [{'clause': c, 'signature': s_, 'detail': d} for c, s_, d, _ in _child_replay_sequence(ctx)]
    else:
        fails = mod.replay(rec['case'])
    hit = [f for f in fails if f['clause'] == rec['clause']]
    for f in fails:
        print('replayed clause=%s detail=%s' % (f['clause'], json.dumps(jsonable(f.get('detail')))[:800]))
    if hit:
        print('VIOLATION property=%s replay=%s' % (rec['property'], path))
        return 1
    print('replay of %s: clause %s does not fail on this tree' % (path, rec['clause']))
    return 0


def main(argv=None):
    ap = argparse.ArgumentParser(prog='mc.run')
    ap.add_argument('prop', nargs='?')
    ap.add_argument('--tier', default=os.environ.get('VERIF_TIER') or 'quick',
                    choices=['quick', 'thorough'])
    ap.add_argument('--replay')
    ap.add_argument('--selftest', action='store_true')
    a = ap.parse_args(argv)
    try:
        seed = int(os.environ.get('VERIF_SEED', '0') or 0)
    except ValueError:
        seed = 0
    try:
        if a.selftest:
            from . import selftest
            return selftest.main()
        if a.replay:
            return run_replay(a.replay)
        if a.prop not in PROPS:
            ap.error('property must be one of %s' % ' '.join(PROPS))
        return run_check(a.prop, a.tier, seed)
    except HarnessError as e:
        print('HARNESS-ERROR: %s' % e)
        traceback.print_exc()
        return 2
    except Exception as e:  # an unexpected exception in the harness is never a verdict
        print('HARNESS-ERROR: unexpected %s: %s' % (type(e).__name__, e))
        traceback.print_exc()
        return 2


if __name__ == '__main__':
    if os.environ.get('PYTHONHASHSEED') != '0' and not os.environ.get('MC_NO_REEXEC'):
        # reproducible exploration order, counts and replay files: fixed string-hash seed
        e = dict(os.environ, PYTHONHASHSEED='0', MC_NO_REEXEC='1')
        os.execve(sys.executable, [sys.executable, '-m', 'mc.run'] + sys.argv[1:], e)
    sys.exit(main())
