"""The explorer: three deterministic, exhaustive engines over the *real* code.

(a) ``bfs``      level-synchronous breadth-first explicit-state search.  A state is the
                 event history that reaches it (live qstrader objects are not copyable);
                 every transition re-builds fresh real objects, replays the history through
                 the real methods and executes one more event; canonical keys deduplicate.
(b) ``choices``  stateless choice-sequence (deviation-bounded) exploration for environment
                 nondeterminism (set iteration order, order-id rank).
(c) ``product``  exhaustive enumeration of a finite product domain: every point is an
                 initial state and one real call / one real session run.

All three report states / transitions / executions and collect clause-tagged violations;
none of them samples: a cap that is hit is recorded in ``Result.caps`` and the run is then
not called exhaustive.
"""
import hashlib
import itertools
import multiprocessing
import os
import time

from .env import HarnessError, n_workers

MAX_VIOLS_PER_CLAUSE = 3


def digest(obj):
    """Stable 16-byte digest of a canonical (repr-able) python value."""
    return hashlib.blake2b(repr(obj).encode(), digest_size=16).digest()


def hexdigest(obj):
    return hashlib.blake2b(repr(obj).encode(), digest_size=8).hexdigest()


class Result(object):
    """What one check run covered and found."""

    def __init__(self, prop, tier):
        self.prop = prop
        self.tier = tier
        self.states = 0
        self.transitions = 0
        self.executions = 0          # real-code executions (replayed histories / calls / sessions)
        self.evaluations = 0         # oracle evaluations
        self.max_depth = 0
        self.outcomes = set()        # digests of distinct observed outcomes
        self.nontrivial = set()      # digests of distinct non-trivial cases
        self.samples = []
        self.violations = []         # list of dict(clause, case, detail, signature)
        self._per_clause = {}
        self.caps = []
        self.extra = {}
        self.assumptions = []
        self.rule = ''
        self.exhaustive = True
        self.bounds = {}
        self.boundary_ambiguous = 0
        self.determinism = {'rechecked': 0, 'mismatches': 0}
        self.parts = []

    def add_violation(self, v):
        n = self._per_clause.get(v['clause'], 0)
        self._per_clause[v['clause']] = n + 1
        if n < MAX_VIOLS_PER_CLAUSE:
            self.violations.append(v)

    def violation_count(self):
        return sum(self._per_clause.values())

    def sample(self, s, limit=6):
        if len(self.samples) < limit:
            self.samples.append(s)

    def cap(self, what):
        self.caps.append(what)
        self.exhaustive = False


# --------------------------------------------------------------------------------------
# worker plumbing: the callable is inherited through fork(), never pickled.
#
# Process isolation: EVERY chunk runs in a freshly forked child of the master, and the master
# itself never executes code under test.  The process history of any execution is therefore
# exactly "the items of its chunk that came before it" - a deterministic, recorded context -
# and state that leaks between executions (module-level caches, class attributes, memoised
# sources) can neither hide behind nor be blamed on whatever a long-lived worker did earlier.
# --------------------------------------------------------------------------------------
_FUNC = None


def _call_chunk(items):
    return [_FUNC(i) for i in items]


def make_chunks(items, chunk=None, workers=None):
    items = list(items)
    workers = workers or n_workers()
    if chunk is None:
        chunk = max(1, min(64, len(items) // (workers * 8) or 1))
    return [items[i:i + chunk] for i in range(0, len(items), chunk)]


def pmap_chunks(func, chunks, workers=None):
    """Yields the list of results of each chunk, in order; one fresh forked child per chunk.

    Chunks are dispatched in rounds (pool.map), so a consumer that stops early never leaves
    tasks in flight (the pool is closed gracefully between rounds)."""
    global _FUNC
    workers = workers or n_workers()
    if not chunks:
        return
    if os.environ.get('VERIF_INLINE'):           # debugging only: no isolation
        for c in chunks:
            yield [func(i) for i in c]
        return
    rnd = max(1, workers) * 6
    _FUNC = func
    ctx = multiprocessing.get_context('fork')
    pool = ctx.Pool(max(1, min(workers, len(chunks))), maxtasksperchild=1)
    try:
        for r in range(0, len(chunks), rnd):
            for outs in pool.map(_call_chunk, chunks[r:r + rnd], chunksize=1):
                yield outs
    finally:
        pool.close()
        pool.join()
        _FUNC = None


def pmap(func, items, chunk=None, workers=None):
    """Ordered parallel map (results in the order of items, independent of the number of workers)."""
    for outs in pmap_chunks(func, make_chunks(items, chunk, workers), workers):
        for o in outs:
            yield o


def in_child(func, *args):
    """Run func(*args) in a pristine forked child and return its (picklable) result."""
    for outs in pmap_chunks(lambda a: func(*a), [[args]], workers=1):
        return outs[0]


# --------------------------------------------------------------------------------------
# (a) breadth-first explicit-state search
# --------------------------------------------------------------------------------------
class BfsSpec(object):
    """Interface of a harness explored by ``bfs``.

    initial()            -> list of initial histories (tuples of events)
    expand(hist)         -> list of (event, key, violations, tags) - one entry per enabled
                            event; executes build(hist) + event on fresh real objects.
                            ``key`` is None when the successor must not be expanded further
                            (a violation diverged model and implementation).
    check_initial(hist)  -> (key, violations, tags)
    rebuild_key(hist)    -> key
    describe()           -> optional JSON-able dict(module=, factory=, args=) from which the spec
                            can be rebuilt when a violation only reproduces with its chunk context
    """


def _ctx(spec, kind, prefix, item):
    d = spec.describe() if hasattr(spec, 'describe') else None
    return {'engine': 'bfs', 'kind': kind, 'spec': d, 'prefix': [list(map(list, h)) for h in prefix],
            'item': list(map(list, item)), '_spec': spec}


def bfs(spec, max_depth, result, is_known=lambda v: False, label='', max_states=None,
        recheck=40):
    t0 = time.time()
    seen = {}
    frontier = []
    stop = False
    inits = list(spec.initial())
    for h, (key, viols, tags) in zip(inits, pmap(spec.check_initial, inits, chunk=1)):
        result.executions += 1
        result.evaluations += 1
        for v in viols:
            v['_ctx'] = _ctx(spec, 'initial', [], h)
            result.add_violation(v)
            if not is_known(v):
                stop = True
        if key is not None and key not in seen:
            seen[key] = h
            frontier.append(h)
        _note_tags(result, tags, key)
    depth = 0
    level_sizes = [len(frontier)]
    transitions = 0
    while frontier and depth < max_depth and not stop:
        frontier.sort()
        nxt = []
        chunks = make_chunks(frontier)
        for chunk_items, chunk_outs in zip(chunks, pmap_chunks(spec.expand, chunks)):
            for i, (h, outs) in enumerate(zip(chunk_items, chunk_outs)):
                for ev, key, viols, tags in outs:
                    transitions += 1
                    result.executions += 1
                    result.evaluations += 1
                    for v in viols:
                        v['_ctx'] = _ctx(spec, 'expand', chunk_items[:i], h)
                        v['_ctx']['event'] = list(ev)
                        result.add_violation(v)
                        if not is_known(v):
                            stop = True
                    _note_tags(result, tags, key)
                    if key is None:
                        continue
                    if key not in seen:
                        h2 = h + (ev,)
                        seen[key] = h2
                        nxt.append(h2)
        depth += 1
        level_sizes.append(len(nxt))
        frontier = nxt
        if max_states is not None and len(seen) > max_states and depth < max_depth:
            result.cap('%s: state cap %d hit after depth %d (target depth %d)' % (
                label, max_states, depth, max_depth))
            break
    # determinism self-check: rebuild a slice of the explored states, each in a pristine child
    hists = sorted(seen.items(), key=lambda kv: kv[1])
    step = max(1, len(hists) // max(1, recheck))
    sample = hists[::step][:recheck]
    if not stop:
        for (key, h), k2 in zip(sample, pmap(spec.rebuild_key, [h for _, h in sample], chunk=1)):
            result.determinism['rechecked'] += 1
            if k2 != key:
                result.determinism['mismatches'] += 1
                result.determinism.setdefault('examples', []).append([list(map(list, h))][:1])
    if result.determinism['mismatches']:
        raise HarnessError('%s: determinism recheck failed (%r)' % (label, result.determinism))
    result.states += len(seen)
    result.transitions += transitions
    result.max_depth = max(result.max_depth, depth)
    for h in [kv[1] for kv in hists[::max(1, len(hists) // 3)][:3]]:
        result.sample({'search': label, 'history': [list(e) for e in h]})
    result.parts.append({'search': label, 'states': len(seen), 'transitions': transitions,
                         'depth_completed': depth, 'target_depth': max_depth,
                         'level_sizes': level_sizes, 'stopped_on_violation': stop,
                         'fixpoint': (not frontier and not stop),
                         'wall_s': round(time.time() - t0, 2)})
    return seen


def _note_tags(result, tags, key):
    if not tags:
        return
    for t in tags.get('outcomes', ()):
        result.outcomes.add(t)
    if tags.get('nontrivial') and key is not None:
        result.nontrivial.add(key)
    result.boundary_ambiguous += tags.get('ambiguous', 0)


# --------------------------------------------------------------------------------------
# (c) product enumeration
# --------------------------------------------------------------------------------------
def product(func, items, result, is_known=lambda v: False, label='', chunk=None,
            stop_after=50, sample_every=None):
    """func(item) -> dict(viols=[...], outcome=<hashable or None>, nontrivial=<bool>,
                         execs=<int>, evals=<int>, ambiguous=<int>, sample=<json or None>)
    func must be a module-level function (it is named in replay files)."""
    t0 = time.time()
    items = list(items)
    n = 0
    fresh = 0
    chunks = make_chunks(items, chunk)
    stopped = False
    for chunk_items, chunk_outs in zip(chunks, pmap_chunks(func, chunks)):
        for i, (item, out) in enumerate(zip(chunk_items, chunk_outs)):
            n += 1
            result.executions += out.get('execs', 1)
            result.evaluations += out.get('evals', 1)
            result.boundary_ambiguous += out.get('ambiguous', 0)
            oc = out.get('outcome')
            if oc is not None:
                result.outcomes.add(oc)
            if out.get('nontrivial'):
                result.nontrivial.add(digest(item) if oc is None else oc)
            for k, v in (out.get('counters') or {}).items():
                result.extra[k] = result.extra.get(k, 0) + v
            for k, v in (out.get('sets') or {}).items():
                result.extra.setdefault(k, set()).update(v)
            if out.get('sample') is not None and len(result.samples) < 6 and (
                    sample_every is None or n % sample_every == 1):
                result.samples.append(out['sample'])
            for v in out.get('viols', ()):
                v['_ctx'] = {'engine': 'product', 'module': getattr(func, '__module__', None),
                             'func': getattr(func, '__name__', None), 'prefix': list(chunk_items[:i]),
                             'item': item}
                result.add_violation(v)
                if not is_known(v):
                    fresh += 1
        if fresh >= stop_after:
            result.cap('%s: stopped after %d fresh violations (%d of %d items done)' % (
                label, fresh, n, len(items)))
            stopped = True
            break
    result.states += n
    result.transitions += n
    result.max_depth = max(result.max_depth, 1)
    result.parts.append({'product': label, 'points': len(items), 'done': n,
                         'wall_s': round(time.time() - t0, 2)})


# --------------------------------------------------------------------------------------
# (b) stateless choice-sequence exploration
# --------------------------------------------------------------------------------------
class Chooser(object):
    """Answers the choice points of one execution.

    ``prefix`` is replayed (a missing / out-of-range choice is a hard error); every later
    point takes alternative 0, the default answer."""

    def __init__(self, prefix=()):
        self.prefix = list(prefix)
        self.choices = []
        self.arity = []

    def choose(self, n, what=''):
        i = len(self.choices)
        if i < len(self.prefix):
            c = self.prefix[i]
            if not (0 <= c < n):
                raise HarnessError('replay divergence at choice %d: %d not in range(%d) [%s]' % (
                    i, c, n, what))
        else:
            c = 0
        self.choices.append(c)
        self.arity.append(n)
        return c

    def finished(self):
        if len(self.choices) < len(self.prefix):
            raise HarnessError('replay divergence: prefix of %d choices, only %d points reached' % (
                len(self.prefix), len(self.choices)))


def choices(run, bound, max_execs=None):
    """Enumerate every execution with at most ``bound`` deviations from the default answer,
    level by level: all executions with 0 deviations, then exactly 1, then exactly 2, ...

    run(prefix) -> (chooser, outcome).  Yields (choices, deviations, outcome).  With ``max_execs`` the
    enumeration stops inside a level; the caller sees which deviation counts were completed from
    the yielded deviation numbers (a level is complete iff a higher level was started or the
    generator ended below the cap)."""
    level = [()]
    n = 0
    for k in range(bound + 1):
        nxt = []
        for prefix in level:
            ch, outcome = run(prefix)
            ch.finished()
            n += 1
            devs = sum(1 for c in ch.choices if c)
            if devs != k:
                raise HarnessError('deviation accounting broken: %d != %d' % (devs, k))
            yield tuple(ch.choices), devs, outcome
            if max_execs is not None and n >= max_execs:
                return
            if k < bound:
                for i in range(len(prefix), len(ch.choices)):
                    for alt in range(1, ch.arity[i]):
                        nxt.append(tuple(ch.choices[:i]) + (alt,))
        level = nxt


def all_products(**domains):
    keys = list(domains)
    for vals in itertools.product(*[domains[k] for k in keys]):
        yield dict(zip(keys, vals))
