"""Binds the harness to the working tree under test.

The repository root (default /repo, overridable with QSTRADER_REPO for the
mutation campaign) is put first on sys.path and we assert that the imported
``qstrader`` package really lives there, so that every check explores the
*current working tree* and never a stale installed copy.
"""
import logging
import os
import sys
import tempfile

REPO = os.path.realpath(os.environ.get('QSTRADER_REPO', '/repo'))
VERIF = os.path.dirname(os.path.dirname(os.path.abspath(__file__)))

_done = False


class HarnessError(Exception):
    """The harness (not the code under test) is at fault. Exit status 2."""


def setup():
    global _done
    if _done:
        return
    os.environ.setdefault('MPLBACKEND', 'Agg')
    if 'qstrader' in sys.modules:
        raise HarnessError('qstrader imported before mc.env.setup()')
    sys.path.insert(0, REPO)
    import qstrader  # noqa
    where = os.path.realpath(qstrader.__file__)
    if not where.startswith(REPO + os.sep):
        raise HarnessError('qstrader imported from %s, expected under %s' % (where, REPO))
    from qstrader import settings
    settings.set_print_events(False)
    logging.getLogger('Portfolio').disabled = True
    _done = True


def scratch_dir(prefix='qsverif-'):
    """A fresh scratch directory outside /repo and /verif (caller removes it)."""
    base = os.environ.get('VERIF_SCRATCH')
    if not base:
        base = '/dev/shm' if os.path.isdir('/dev/shm') and os.access('/dev/shm', os.W_OK) \
            else tempfile.gettempdir()
    return tempfile.mkdtemp(prefix=prefix, dir=base)


def n_workers():
    try:
        return max(1, int(os.environ.get('VERIF_WORKERS', '') or (os.cpu_count() or 4)))
    except ValueError:
        return os.cpu_count() or 4
