"""Bounded exhaustive model checking of mhallsmoore/qstrader (see /verif/DESIGN.md)."""
